package mqttx

import (
	"bytes"
	"encoding/hex"
	"errors"
	"io"
	"math/rand"
	"strings"
	"testing"
	"testing/iotest"
)

var versions = []Version{V31, V311, V5}

// ------------------------------------------------------------ random generator

// Which properties may appear where, written per packet from MQTT 5.0 table 2-4
// (the implementation keeps the transposed table, per property). Key 0 = will.
var allowedProps = map[byte]string{
	0:           "PayloadFormat MessageExpiry ContentType ResponseTopic CorrelationData WillDelay User",
	CONNECT:     "SessionExpiry AuthMethod AuthData RequestProblemInfo RequestResponseInfo ReceiveMax TopicAliasMax User MaxPacketSize",
	CONNACK:     "SessionExpiry AssignedClientID ServerKeepAlive AuthMethod AuthData ResponseInfo ServerReference ReasonString ReceiveMax TopicAliasMax MaximumQoS RetainAvailable User MaxPacketSize WildcardSubAvailable SubIDAvailable SharedSubAvailable",
	PUBLISH:     "PayloadFormat MessageExpiry ContentType ResponseTopic CorrelationData SubscriptionIDs TopicAlias User",
	PUBACK:      "ReasonString User",
	PUBREC:      "ReasonString User",
	PUBREL:      "ReasonString User",
	PUBCOMP:     "ReasonString User",
	SUBSCRIBE:   "SubscriptionIDs User",
	SUBACK:      "ReasonString User",
	UNSUBSCRIBE: "User",
	UNSUBACK:    "ReasonString User",
	DISCONNECT:  "SessionExpiry ServerReference ReasonString User",
	AUTH:        "AuthMethod AuthData ReasonString User",
}

const allPropNames = "PayloadFormat MessageExpiry ContentType ResponseTopic CorrelationData SubscriptionIDs SessionExpiry AssignedClientID ServerKeepAlive AuthMethod AuthData RequestProblemInfo WillDelay RequestResponseInfo ResponseInfo ServerReference ReasonString ReceiveMax TopicAliasMax TopicAlias MaximumQoS RetainAvailable User MaxPacketSize WildcardSubAvailable SubIDAvailable SharedSubAvailable"

type gen struct{ *rand.Rand }

var alphabet = []rune("abcXYZ019 /+#$-_é中\U0001F600\ufeff\uffff\u0001\u007f")

func (g gen) strOf(skip string, min int) string {
	var sb strings.Builder
	for n := min + g.Intn(10); sb.Len() < n; {
		if c := alphabet[g.Intn(len(alphabet))]; !strings.ContainsRune(skip, c) {
			sb.WriteRune(c)
		}
	}
	return sb.String()
}
func (g gen) str() string   { return g.strOf("", 0) }
func (g gen) topic() string { return g.strOf("+#", 1) }
func (g gen) bin() []byte   { b := make([]byte, g.Intn(40)); g.Read(b); return b }
func (g gen) flip() bool    { return g.Intn(2) == 0 }
func (g gen) pid() uint16   { return uint16(1 + g.Intn(65535)) }
func (g gen) pick(s string) byte {
	return s[g.Intn(len(s))]
}

func (g gen) filter() string {
	var lv []string
	for i, n := 0, 1+g.Intn(4); i < n; i++ {
		switch g.Intn(4) {
		case 0:
			lv = append(lv, "+")
		case 1:
			lv = append(lv, "")
		default:
			lv = append(lv, g.strOf("+#/", 0))
		}
	}
	if g.Intn(3) == 0 {
		lv = append(lv, "#")
	}
	f := strings.Join(lv, "/")
	if f == "" {
		f = "x"
	}
	if g.Intn(4) == 0 {
		f = "$share/" + g.strOf("+#/", 1) + "/" + f
	}
	return f
}

func ptr[T any](x T) *T { return &x }

func (g gen) setProp(ps *Props, name string, many bool) {
	bit := byte(g.Intn(2))
	switch name {
	case "PayloadFormat":
		ps.PayloadFormat = &bit
	case "MessageExpiry":
		ps.MessageExpiry = ptr(g.Uint32())
	case "ContentType":
		ps.ContentType = ptr(g.str())
	case "ResponseTopic":
		ps.ResponseTopic = ptr(g.topic())
	case "CorrelationData":
		ps.CorrelationData, ps.HasCorrelationData = g.bin(), true
	case "SubscriptionIDs":
		for i, n := 0, 1+g.Intn(3); i < n && (many || i < 1); i++ {
			ps.SubscriptionIDs = append(ps.SubscriptionIDs, uint32(1+g.Intn(maxVarint)))
		}
	case "SessionExpiry":
		ps.SessionExpiry = ptr(g.Uint32())
	case "AssignedClientID":
		ps.AssignedClientID = ptr(g.str())
	case "ServerKeepAlive":
		ps.ServerKeepAlive = ptr(uint16(g.Intn(65536)))
	case "AuthMethod":
		ps.AuthMethod = ptr(g.str())
	case "AuthData":
		ps.AuthData, ps.HasAuthData = g.bin(), true
	case "RequestProblemInfo":
		ps.RequestProblemInfo = &bit
	case "WillDelay":
		ps.WillDelay = ptr(g.Uint32())
	case "RequestResponseInfo":
		ps.RequestResponseInfo = &bit
	case "ResponseInfo":
		ps.ResponseInfo = ptr(g.str())
	case "ServerReference":
		ps.ServerReference = ptr(g.str())
	case "ReasonString":
		ps.ReasonString = ptr(g.str())
	case "ReceiveMax":
		ps.ReceiveMax = ptr(g.pid())
	case "TopicAliasMax":
		ps.TopicAliasMax = ptr(uint16(g.Intn(65536)))
	case "TopicAlias":
		ps.TopicAlias = ptr(g.pid())
	case "MaximumQoS":
		ps.MaximumQoS = &bit
	case "RetainAvailable":
		ps.RetainAvailable = &bit
	case "User":
		for i, n := 0, 1+g.Intn(3); i < n; i++ {
			ps.User = append(ps.User, UserProp{g.str(), g.str()})
		}
	case "MaxPacketSize":
		ps.MaxPacketSize = ptr(1 + uint32(g.Int63n(1<<32-1)))
	case "WildcardSubAvailable":
		ps.WildcardSubAvailable = &bit
	case "SubIDAvailable":
		ps.SubIDAvailable = &bit
	case "SharedSubAvailable":
		ps.SharedSubAvailable = &bit
	default:
		panic(name)
	}
}

// props returns random properties legal in ctx; every one of them when all is set.
func (g gen) props(ctx byte, all bool) *Props {
	if !all && g.Intn(4) == 0 {
		return nil
	}
	ps := &Props{}
	for _, name := range strings.Fields(allowedProps[ctx]) {
		if all || g.flip() {
			g.setProp(ps, name, ctx == PUBLISH)
		}
	}
	if ps.HasAuthData && ps.AuthMethod == nil {
		g.setProp(ps, "AuthMethod", false)
	}
	return ps
}

// packet returns a random well-formed packet of type t for version v.
func (g gen) packet(t byte, v Version, all bool) *Packet {
	p := &Packet{Type: t}
	v5 := v == V5
	if v5 && t != PINGREQ && t != PINGRESP {
		p.Props = g.props(t, all)
	}
	switch t {
	case CONNECT:
		p.ProtoName, p.Level = "MQTT", byte(v)
		if v == V31 {
			p.ProtoName = "MQIsdp"
		}
		p.CleanStart, p.KeepAlive, p.ClientID = g.flip(), uint16(g.Intn(65536)), g.str()
		if all || g.flip() {
			p.WillFlag, p.WillQoS, p.WillRetain, p.WillTopic, p.WillPayload = true, byte(g.Intn(3)), g.flip(), g.topic(), g.bin()
			if v5 {
				p.WillProps = g.props(0, all)
			}
		}
		if all || g.flip() {
			p.HasUsername, p.Username = true, g.str()
		}
		if all || (g.flip() && (v5 || p.HasUsername)) {
			p.HasPassword, p.Password = true, g.bin()
		}
	case CONNACK:
		p.SessionPresent, p.Code = g.flip(), byte(g.Intn(6))
		if v5 {
			p.Code = g.pick(reasonCodes[t])
		}
	case PUBLISH:
		p.QoS, p.Retain, p.Topic, p.Payload = byte(g.Intn(3)), g.flip(), g.topic(), g.bin()
		if p.QoS > 0 {
			p.Dup, p.PacketID = g.flip(), g.pid()
		}
		if v5 && p.Props != nil && p.Props.TopicAlias != nil && g.flip() {
			p.Topic = ""
		}
	case PUBACK, PUBREC, PUBREL, PUBCOMP, DISCONNECT, AUTH:
		if t != DISCONNECT && t != AUTH {
			p.PacketID = g.pid()
		}
		if v5 && g.flip() {
			p.Code = g.pick(reasonCodes[t])
		}
		if t == PUBREL && v == V31 {
			p.Dup = g.flip()
		}
	case SUBSCRIBE:
		p.PacketID = g.pid()
		for i, n := 0, 1+g.Intn(4); i < n; i++ {
			s := Sub{Filter: g.filter(), QoS: byte(g.Intn(3))}
			if v5 {
				_, _, shared := SplitShare(s.Filter)
				s.NoLocal, s.RAP, s.RetainHandling = !shared && g.flip(), g.flip(), byte(g.Intn(3))
			}
			p.Subs = append(p.Subs, s)
		}
		p.Dup = v == V31 && g.flip()
	case UNSUBSCRIBE:
		p.PacketID = g.pid()
		for i, n := 0, 1+g.Intn(4); i < n; i++ {
			p.Filters = append(p.Filters, g.filter())
		}
		p.Dup = v == V31 && g.flip()
	case SUBACK, UNSUBACK:
		p.PacketID = g.pid()
		for i, n := 0, 1+g.Intn(4); i < n && (v5 || t == SUBACK); i++ {
			if v5 {
				p.Codes = append(p.Codes, g.pick(reasonCodes[t]))
			} else {
				p.Codes = append(p.Codes, g.pick("\x00\x01\x02\x80"))
			}
		}
	}
	return p
}

// ------------------------------------------------------------ round trips

func TestRoundTripRandom(t *testing.T) {
	g := gen{rand.New(rand.NewSource(20260923))}
	for _, v := range versions {
		for typ := byte(CONNECT); typ <= AUTH; typ++ {
			if typ == AUTH && v != V5 {
				continue
			}
			for i := 0; i < 2500; i++ {
				p := g.packet(typ, v, i == 0)
				b, err := Encode(p, v)
				if err != nil {
					t.Fatalf("v%d %s: encode: %v", v, p, err)
				}
				q, n, err := Decode(append(b[:len(b):len(b)], 0xFF, 0xFF), v) // trailing bytes belong to the next packet
				if err != nil || n != len(b) {
					t.Fatalf("v%d %s\n%x\ndecode: n=%d (want %d) err=%v", v, p, b, n, len(b), err)
				}
				if !Equal(p, q) || !Equal(q, p) {
					t.Fatalf("v%d round trip mismatch\n in: %s\nout: %s\n%x", v, p, q, b)
				}
				if b2, err := Encode(q, v); err != nil || !bytes.Equal(b, b2) {
					t.Fatalf("v%d re-encode differs (%v)\n%x\n%x", v, err, b, b2)
				}
				if Size(p, v) != len(b) || q.String() == "" {
					t.Fatalf("Size/String")
				}
				if i%25 == 0 {
					for cut := 0; cut < len(b); cut++ {
						if q, n, err := Decode(b[:cut], v); err != ErrShort || n != 0 || q != nil {
							t.Fatalf("v%d %s cut at %d/%d: %v, %d, %v", v, p, cut, len(b), q, n, err)
						}
					}
				}
			}
		}
	}
}

func TestAllPropertiesPopulated(t *testing.T) {
	g := gen{rand.New(rand.NewSource(1))}
	seen := map[string]bool{}
	for ctx, names := range allowedProps {
		ps := g.props(ctx, true)
		for _, n := range strings.Fields(names) {
			seen[n] = true
			if !strings.Contains(ps.String(), n) {
				t.Errorf("ctx %d: %s not populated: %s", ctx, n, ps)
			}
		}
		if ps.IsEmpty() {
			t.Errorf("IsEmpty true for %s", ps)
		}
	}
	if len(seen) != len(strings.Fields(allPropNames)) || len(seen) != len(propTable) {
		t.Errorf("property tables disagree: %d %d %d", len(seen), len(strings.Fields(allPropNames)), len(propTable))
	}
	var nilp *Props
	if !nilp.IsEmpty() || !(&Props{}).IsEmpty() || (&Props{HasAuthData: true}).IsEmpty() {
		t.Errorf("IsEmpty on nil/zero/flag-only")
	}
}

// Every property in every packet type (and in the will): accepted exactly where
// table 2-4 allows it.
func TestPropertyPlacement(t *testing.T) {
	g := gen{rand.New(rand.NewSource(2))}
	for ctx := byte(0); ctx <= AUTH; ctx++ {
		if ctx == PINGREQ || ctx == PINGRESP {
			continue
		}
		for _, name := range strings.Fields(allPropNames) {
			ps := &Props{}
			g.setProp(ps, name, false)
			if name == "AuthData" {
				g.setProp(ps, "AuthMethod", false)
			}
			p := g.packet(max(ctx, CONNECT), V5, false)
			p.Props = ps
			if ctx == 0 {
				p.Props, p.WillFlag, p.WillTopic, p.WillProps = nil, true, "w", ps
			}
			b, err := Encode(p, V5)
			if err != nil {
				t.Fatal(err)
			}
			_, _, err = Decode(b, V5)
			want := strings.Contains(" "+allowedProps[ctx]+" ", " "+name+" ")
			if want != (err == nil) || (err != nil && !isMalformed(err)) {
				t.Errorf("%s in ctx %d: allowed=%t, err=%v", name, ctx, want, err)
			}
		}
	}
}

// ------------------------------------------------------------ known encodings

// pkt builds a packet from fixed header byte h and body parts: int -> one byte,
// uint16 -> two bytes, string -> length-prefixed string, []byte -> raw bytes.
func pkt(h byte, parts ...any) []byte {
	var body []byte
	for _, x := range parts {
		switch x := x.(type) {
		case int:
			body = append(body, byte(x))
		case uint16:
			body = append(body, byte(x>>8), byte(x))
		case string:
			body = append(body, byte(len(x)>>8), byte(len(x)))
			body = append(body, x...)
		case []byte:
			body = append(body, x...)
		default:
			panic("pkt: bad part")
		}
	}
	w := &writer{b: []byte{h}}
	w.varint(uint32(len(body)))
	return append(w.b, body...)
}

func unhex(s string) []byte {
	b, err := hex.DecodeString(strings.ReplaceAll(s, " ", ""))
	if err != nil {
		panic(err)
	}
	return b
}

func isMalformed(err error) bool {
	var me *MalformedError
	return errors.As(err, &me)
}

func TestKnownEncodings(t *testing.T) {
	reason := "x"
	for _, c := range []struct {
		hex string
		v   Version
		p   Packet
	}{
		{"10 0c 00 04 4d 51 54 54 04 02 00 3c 00 00", V311, Packet{Type: CONNECT, ProtoName: "MQTT", Level: 4, CleanStart: true, KeepAlive: 60}},
		{"10 0e 00 06 4d 51 49 73 64 70 03 02 00 3c 00 00", V31, Packet{Type: CONNECT, ProtoName: "MQIsdp", Level: 3, CleanStart: true, KeepAlive: 60}},
		{"10 0d 00 04 4d 51 54 54 05 02 00 3c 00 00 00", V5, Packet{Type: CONNECT, ProtoName: "MQTT", Level: 5, CleanStart: true, KeepAlive: 60}},
		{"10 1b 00 04 4d 51 54 54 04 ee 00 0a 00 01 63 00 01 77 00 02 01 02 00 01 75 00 02 70 71", V311, Packet{Type: CONNECT, ProtoName: "MQTT", Level: 4,
			CleanStart: true, KeepAlive: 10, ClientID: "c", WillFlag: true, WillQoS: 1, WillRetain: true, WillTopic: "w", WillPayload: []byte{1, 2},
			HasUsername: true, Username: "u", HasPassword: true, Password: []byte("pq")}},
		{"20 02 01 00", V311, Packet{Type: CONNACK, SessionPresent: true}},
		{"20 02 00 05", V31, Packet{Type: CONNACK, Code: 5}},
		{"20 03 00 00 00", V5, Packet{Type: CONNACK}},
		{"20 06 00 87 03 21 00 0a", V5, Packet{Type: CONNACK, Code: 0x87, Props: &Props{ReceiveMax: ptr(uint16(10))}}},
		{"30 07 00 03 61 2f 62 68 69", V311, Packet{Type: PUBLISH, Topic: "a/b", Payload: []byte("hi")}},
		{"3b 09 00 03 61 2f 62 00 0a 68 69", V31, Packet{Type: PUBLISH, Dup: true, QoS: 1, Retain: true, PacketID: 10, Topic: "a/b", Payload: []byte("hi")}},
		{"34 0a 00 03 61 2f 62 00 0a 00 68 69", V5, Packet{Type: PUBLISH, QoS: 2, PacketID: 10, Topic: "a/b", Payload: []byte("hi")}},
		{"30 0a 00 00 07 01 01 0b 05 23 00 02", V5, Packet{Type: PUBLISH, Props: &Props{PayloadFormat: ptr(byte(1)), SubscriptionIDs: []uint32{5}, TopicAlias: ptr(uint16(2))}}},
		{"40 02 00 0a", V311, Packet{Type: PUBACK, PacketID: 10}},
		{"40 02 00 0a", V5, Packet{Type: PUBACK, PacketID: 10}},
		{"50 03 00 0a 10", V5, Packet{Type: PUBREC, PacketID: 10, Code: 0x10}},
		{"62 02 00 0a", V311, Packet{Type: PUBREL, PacketID: 10}},
		{"6a 02 00 0a", V31, Packet{Type: PUBREL, PacketID: 10, Dup: true}},
		{"70 08 00 0a 92 04 1f 00 01 78", V5, Packet{Type: PUBCOMP, PacketID: 10, Code: 0x92, Props: &Props{ReasonString: &reason}}},
		{"82 08 00 01 00 03 61 2f 62 01", V311, Packet{Type: SUBSCRIBE, PacketID: 1, Subs: []Sub{{Filter: "a/b", QoS: 1}}}},
		{"82 0b 00 01 02 0b 07 00 03 61 2f 23 2e", V5, Packet{Type: SUBSCRIBE, PacketID: 1, Props: &Props{SubscriptionIDs: []uint32{7}},
			Subs: []Sub{{Filter: "a/#", QoS: 2, NoLocal: true, RAP: true, RetainHandling: 2}}}},
		{"90 04 00 01 01 80", V311, Packet{Type: SUBACK, PacketID: 1, Codes: []byte{1, 0x80}}},
		{"90 04 00 01 00 a2", V5, Packet{Type: SUBACK, PacketID: 1, Codes: []byte{0xA2}}},
		{"a2 07 00 01 00 03 61 2f 62", V311, Packet{Type: UNSUBSCRIBE, PacketID: 1, Filters: []string{"a/b"}}},
		{"a2 08 00 01 00 00 03 61 2f 62", V5, Packet{Type: UNSUBSCRIBE, PacketID: 1, Filters: []string{"a/b"}}},
		{"b0 02 00 01", V311, Packet{Type: UNSUBACK, PacketID: 1}},
		{"b0 04 00 01 00 11", V5, Packet{Type: UNSUBACK, PacketID: 1, Codes: []byte{0x11}}},
		{"c0 00", V311, Packet{Type: PINGREQ}},
		{"d0 00", V5, Packet{Type: PINGRESP}},
		{"e0 00", V311, Packet{Type: DISCONNECT}},
		{"e0 00", V5, Packet{Type: DISCONNECT}},
		{"e0 01 04", V5, Packet{Type: DISCONNECT, Code: 4}},
		{"e0 07 00 05 11 00 00 00 00", V5, Packet{Type: DISCONNECT, Props: &Props{SessionExpiry: ptr(uint32(0))}}},
		{"f0 00", V5, Packet{Type: AUTH}},
		{"f0 02 18 00", V5, Packet{Type: AUTH, Code: 0x18}},
		{"f0 0a 19 08 15 00 01 6d 16 00 01 64", V5, Packet{Type: AUTH, Code: 0x19, Props: &Props{AuthMethod: ptr("m"), AuthData: []byte("d")}}},
	} {
		raw := unhex(c.hex)
		got, n, err := Decode(raw, c.v)
		if err != nil || n != len(raw) || !Equal(got, &c.p) {
			t.Errorf("decode v%d %s: got %s n=%d err=%v, want %s", c.v, c.hex, got, n, err, &c.p)
		}
		if enc, err := Encode(&c.p, c.v); err != nil || !bytes.Equal(enc, raw) {
			t.Errorf("encode v%d %s: got %x err=%v, want %s", c.v, &c.p, enc, err, c.hex)
		}
	}
	// Non-canonical but legal v5 forms decode to the same packets as the short ones.
	for long, short := range map[string]string{"40 04 00 0a 00 00": "40 02 00 0a", "40 03 00 0a 00": "40 02 00 0a",
		"e0 02 00 00": "e0 00", "e0 01 00": "e0 00", "f0 02 00 00": "f0 00", "e0 02 04 00": "e0 01 04"} {
		a, _, err1 := Decode(unhex(long), V5)
		b, _, err2 := Decode(unhex(short), V5)
		if err1 != nil || err2 != nil || !Equal(a, b) {
			t.Errorf("%s vs %s: %v %v %v %v", long, short, a, b, err1, err2)
		}
	}
	// MQTT 5.0 figure 1-1: "A" followed by U+2A6D4.
	if s := unhex("41 f0 aa 9b 94"); !ValidUTF8(s) || string(s) != "A\U0002A6D4" {
		t.Errorf("spec UTF-8 example rejected")
	}
}

func TestVarint(t *testing.T) {
	for val, enc := range map[uint32]string{0: "00", 1: "01", 127: "7f", 128: "8001", 16383: "ff7f", 16384: "808001",
		2097151: "ffff7f", 2097152: "80808001", 268435455: "ffffff7f"} {
		w := &writer{}
		w.varint(val)
		if hex.EncodeToString(w.b) != enc || w.err != nil {
			t.Errorf("encode %d: %x %v", val, w.b, w.err)
		}
		got, n, err := varint(append(unhex(enc), 0x80))
		if got != val || n != len(enc)/2 || err != nil {
			t.Errorf("decode %s: %d %d %v", enc, got, n, err)
		}
		for cut := 0; cut < len(enc)/2; cut++ {
			if _, _, err := varint(unhex(enc)[:cut]); err != ErrShort {
				t.Errorf("decode %s cut %d: %v", enc, cut, err)
			}
		}
	}
	w := &writer{}
	if w.varint(268435456); w.err == nil {
		t.Errorf("268435456 encoded")
	}
	for _, bad := range []string{"8000", "808000", "80808000", "ffffffff7f", "8080808001", "80808080"} {
		if _, _, err := varint(unhex(bad)); !isMalformed(err) {
			t.Errorf("varint %s: %v", bad, err)
		}
	}
	// Remaining length boundaries through whole PUBLISH packets (topic "t": 3 bytes + payload).
	for _, rl := range []int{127, 128, 16383, 16384, 2097151, 2097152} {
		p := &Packet{Type: PUBLISH, Topic: "t", Payload: bytes.Repeat([]byte{0xAB}, rl-3)}
		b, err := Encode(p, V311)
		w := &writer{b: []byte{0x30}}
		w.varint(uint32(rl))
		if err != nil || !bytes.HasPrefix(b, w.b) || len(b) != len(w.b)+rl {
			t.Fatalf("rl %d: header %x err %v", rl, b[:5], err)
		}
		if q, n, err := Decode(b, V311); err != nil || n != len(b) || !Equal(p, q) {
			t.Errorf("rl %d: n=%d err=%v", rl, n, err)
		}
		if _, _, err := Decode(b[:len(b)-1], V311); err != ErrShort {
			t.Errorf("rl %d short: %v", rl, err)
		}
	}
	if _, _, err := Decode(unhex("30 ff ff ff 7f 00 01"), V311); err != ErrShort {
		t.Errorf("max remaining length header: %v", err)
	}
	if _, err := Encode(&Packet{Type: PUBLISH, Topic: strings.Repeat("a", 65536)}, V5); err == nil {
		t.Errorf("65536 byte string encoded")
	}
	if !ValidUTF8(bytes.Repeat([]byte("a"), 65535)) || ValidUTF8(bytes.Repeat([]byte("a"), 65536)) {
		t.Errorf("string length limit")
	}
}

// ------------------------------------------------------------ strictness

func TestMalformed(t *testing.T) {
	connect := func(level int, name string, flags int, rest ...any) []byte {
		return pkt(0x10, append([]any{name, level, flags, uint16(60)}, rest...)...)
	}
	pub5 := func(topic string, props ...int) []byte { // v5 QoS 0 PUBLISH with raw property bytes
		parts := []any{topic, len(props)}
		for _, b := range props {
			parts = append(parts, b)
		}
		return pkt(0x30, parts...)
	}
	connack5 := func(props ...int) []byte {
		parts := []any{0, 0, len(props)}
		for _, b := range props {
			parts = append(parts, b)
		}
		return pkt(0x20, parts...)
	}
	sub := func(h byte, parts ...any) []byte { return pkt(h, append([]any{uint16(1)}, parts...)...) }
	type tc struct {
		name string
		v    Version
		b    []byte
	}
	bad := []tc{
		// fixed header
		{"type 0", V311, pkt(0x00)},
		{"AUTH in v3.1.1", V311, pkt(0xF0)},
		{"PINGREQ flags", V311, unhex("c1 00")},
		{"CONNECT flags", V311, append([]byte{0x11}, connect(4, "MQTT", 2, "")[1:]...)},
		{"CONNACK flags", V311, unhex("28 02 00 00")},
		{"PUBACK flags", V5, unhex("42 02 00 01")},
		{"PUBREL flags 0", V311, unhex("60 02 00 01")},
		{"PUBREL flags dup v3.1.1", V311, unhex("6a 02 00 01")},
		{"SUBSCRIBE flags 0", V311, sub(0x80, "a", 0)},
		{"SUBSCRIBE flags 3", V5, sub(0x83, 0, "a", 0)},
		{"UNSUBSCRIBE flags 0", V311, sub(0xA0, "a")},
		{"DISCONNECT flags", V5, unhex("e2 00")},
		{"remaining length non-minimal", V311, unhex("c0 80 00")},
		{"remaining length 5 bytes", V311, unhex("30 ff ff ff ff 7f")},
		// CONNECT
		{"reserved connect flag", V311, connect(4, "MQTT", 0x03, "")},
		{"reserved connect flag v5", V5, connect(5, "MQTT", 0x03, 0, "")},
		{"will qos without will", V311, connect(4, "MQTT", 0x0A, "")},
		{"will retain without will", V5, connect(5, "MQTT", 0x22, 0, "")},
		{"will qos 3", V311, connect(4, "MQTT", 0x1E, "", "w", "m")},
		{"password without username v3.1.1", V311, connect(4, "MQTT", 0x42, "", "pw")},
		{"password without username v3.1", V31, connect(3, "MQIsdp", 0x42, "", "pw")},
		{"MQTT/3", V311, connect(3, "MQTT", 2, "")},
		{"MQIsdp/4", V311, connect(4, "MQIsdp", 2, "")},
		{"MQIsdp/5", V5, connect(5, "MQIsdp", 2, 0, "")},
		{"MQTT/6", V5, connect(6, "MQTT", 2, 0, "")},
		{"mqtt/4", V311, connect(4, "mqtt", 2, "")},
		{"CONNECT trailing byte", V311, connect(4, "MQTT", 2, "", 0)},
		{"CONNECT missing client id", V311, connect(4, "MQTT", 2)},
		{"CONNECT missing will payload", V311, connect(4, "MQTT", 6, "", "w")},
		{"CONNECT string overruns packet", V311, connect(4, "MQTT", 2, uint16(5), []byte("ab"))},
		{"will topic wildcard", V311, connect(4, "MQTT", 6, "", "w/#", "m")},
		{"will topic empty", V5, connect(5, "MQTT", 6, 0, "", 0, "", "m")},
		{"client id with NUL", V311, connect(4, "MQTT", 2, "a\x00b")},
		{"username surrogate", V311, connect(4, "MQTT", 0x82, "", "\xed\xa0\x80")},
		{"will property in CONNECT properties", V5, connect(5, "MQTT", 2, 5, 0x18, 0, 0, 0, 1, "")},
		{"CONNECT property in will properties", V5, connect(5, "MQTT", 6, 0, "", 5, 0x11, 0, 0, 0, 1, "w", "m")},
		{"two session expiry", V5, connect(5, "MQTT", 2, 10, 0x11, 0, 0, 0, 1, 0x11, 0, 0, 0, 1, "")},
		{"request problem info 2", V5, connect(5, "MQTT", 2, 2, 0x17, 2, "")},
		{"request response info 2", V5, connect(5, "MQTT", 2, 2, 0x19, 2, "")},
		{"receive maximum 0", V5, connect(5, "MQTT", 2, 3, 0x21, 0, 0, "")},
		{"maximum packet size 0", V5, connect(5, "MQTT", 2, 5, 0x27, 0, 0, 0, 0, "")},
		{"auth data without method", V5, connect(5, "MQTT", 2, 4, 0x16, 0, 1, 7, "")},
		{"property length overruns", V5, connect(5, "MQTT", 2, 50, 0x11, 0, 0, 0, 1, "")},
		{"property value truncated", V5, connect(5, "MQTT", 2, 3, 0x11, 0, 0, "")},
		// CONNACK
		{"CONNACK reserved ack flags", V311, unhex("20 02 02 00")},
		{"CONNACK reserved ack flags v5", V5, unhex("20 03 80 00 00")},
		{"CONNACK v3 code 6", V311, unhex("20 02 00 06")},
		{"CONNACK v5 code 1", V5, unhex("20 03 00 01 00")},
		{"CONNACK v3 with extra byte", V311, unhex("20 03 00 00 00")},
		{"CONNACK v3 one byte", V311, unhex("20 01 00")},
		{"CONNACK v5 without property length", V5, unhex("20 02 00 00")},
		{"CONNACK maximum qos 2", V5, connack5(0x24, 2)},
		{"CONNACK retain available 2", V5, connack5(0x25, 2)},
		{"CONNACK wildcard available 2", V5, connack5(0x28, 2)},
		{"CONNACK subid available 2", V5, connack5(0x29, 2)},
		{"CONNACK shared available 2", V5, connack5(0x2A, 2)},
		{"CONNACK two reason strings", V5, connack5(0x1F, 0, 0, 0x1F, 0, 0)},
		{"CONNACK property length non-minimal", V5, unhex("20 04 00 00 80 00")},
		{"CONNACK unknown property 4", V5, connack5(0x04, 0)},
		{"CONNACK property id as 2-byte varint", V5, connack5(0x91, 0x00, 0)},
		// PUBLISH
		{"QoS 3", V311, pkt(0x36, "a", uint16(1))},
		{"DUP with QoS 0", V311, pkt(0x38, "a")},
		{"packet id 0 qos 1", V311, pkt(0x32, "a", uint16(0))},
		{"packet id 0 qos 2 v5", V5, pkt(0x34, "a", uint16(0), 0)},
		{"packet id missing", V311, pkt(0x32, "a")},
		{"topic with +", V311, pkt(0x30, "a/+")},
		{"topic #", V5, pub5("#")},
		{"empty topic v3.1.1", V311, pkt(0x30, "")},
		{"empty topic v3.1", V31, pkt(0x30, "")},
		{"empty topic v5 without alias", V5, pub5("")},
		{"topic NUL", V311, pkt(0x30, "a\x00")},
		{"topic surrogate", V5, pub5("\xed\xbf\xbf")},
		{"topic overlong", V311, pkt(0x30, "\xc0\x80")},
		{"topic 0xff", V311, pkt(0x30, "\xff")},
		{"topic truncated rune", V311, pkt(0x30, "\xe4\xb8")},
		{"topic alias 0", V5, pub5("a", 0x23, 0, 0)},
		{"two topic aliases", V5, pub5("a", 0x23, 0, 1, 0x23, 0, 1)},
		{"payload format 2", V5, pub5("a", 0x01, 2)},
		{"two payload formats", V5, pub5("a", 0x01, 0, 0x01, 0)},
		{"two correlation data", V5, pub5("a", 0x09, 0, 0, 0x09, 0, 0)},
		{"subscription id 0", V5, pub5("a", 0x0B, 0)},
		{"subscription id non-minimal", V5, pub5("a", 0x0B, 0x81, 0x00)},
		{"subscription id 5 bytes", V5, pub5("a", 0x0B, 0x81, 0x81, 0x81, 0x81, 0x01)},
		{"response topic wildcard", V5, pub5("a", 0x08, 0, 1, '+')},
		{"response topic empty", V5, pub5("a", 0x08, 0, 0)},
		{"user property invalid utf8", V5, pub5("a", 0x26, 0, 1, 'k', 0, 1, 0xFF)},
		{"session expiry in PUBLISH", V5, pub5("a", 0x11, 0, 0, 0, 1)},
		{"PUBLISH v5 without property length", V5, pkt(0x30, "a")},
		// acks
		{"PUBACK v3 3 bytes", V311, unhex("40 03 00 01 00")},
		{"PUBACK 1 byte", V5, unhex("40 01 00")},
		{"PUBACK v5 bad code", V5, unhex("40 03 00 01 92")},
		{"PUBREL v5 bad code", V5, unhex("62 03 00 01 10")},
		{"PUBACK v5 property overrun", V5, unhex("40 04 00 01 00 01")},
		{"PUBACK v5 trailing", V5, unhex("40 05 00 01 00 00 00")},
		{"PUBCOMP v5 session expiry", V5, unhex("70 09 00 01 00 05 11 00 00 00 01")},
		// SUBSCRIBE / UNSUBSCRIBE / SUBACK / UNSUBACK
		{"SUBSCRIBE empty payload", V311, sub(0x82)},
		{"SUBSCRIBE empty payload v5", V5, sub(0x82, 0)},
		{"UNSUBSCRIBE empty payload", V311, sub(0xA2)},
		{"UNSUBSCRIBE empty payload v5", V5, sub(0xA2, 0)},
		{"SUBSCRIBE packet id 0", V311, pkt(0x82, uint16(0), "a", 0)},
		{"UNSUBSCRIBE packet id 0", V5, pkt(0xA2, uint16(0), 0, "a")},
		{"SUBSCRIBE missing options", V311, sub(0x82, "a")},
		{"SUBSCRIBE qos 3", V311, sub(0x82, "a", 3)},
		{"SUBSCRIBE v3 reserved bits", V311, sub(0x82, "a", 0x04)},
		{"SUBSCRIBE v5 reserved bit 6", V5, sub(0x82, 0, "a", 0x40)},
		{"SUBSCRIBE v5 reserved bit 7", V5, sub(0x82, 0, "a", 0x80)},
		{"SUBSCRIBE retain handling 3", V5, sub(0x82, 0, "a", 0x30)},
		{"SUBSCRIBE no local on shared", V5, sub(0x82, 0, "$share/g/a", 0x04)},
		{"SUBSCRIBE two subscription ids", V5, sub(0x82, 4, 0x0B, 1, 0x0B, 2, "a", 0)},
		{"SUBSCRIBE subscription id 0", V5, sub(0x82, 2, 0x0B, 0, "a", 0)},
		{"SUBSCRIBE reason string", V5, sub(0x82, 3, 0x1F, 0, 0, "a", 0)},
		{"SUBSCRIBE filter a/#/b", V311, sub(0x82, "a/#/b", 0)},
		{"SUBSCRIBE filter empty", V5, sub(0x82, 0, "", 0)},
		{"SUBSCRIBE filter $share/g", V5, sub(0x82, 0, "$share/g", 0)},
		{"SUBSCRIBE second filter bad", V311, sub(0x82, "a", 0, "a#", 0)},
		{"UNSUBSCRIBE filter a+", V311, sub(0xA2, "a+")},
		{"UNSUBSCRIBE filter invalid utf8", V5, sub(0xA2, 0, "\xff")},
		{"UNSUBSCRIBE subscription id", V5, sub(0xA2, 2, 0x0B, 1, "a")},
		{"SUBACK v3 code 3", V311, sub(0x90, 3)},
		{"SUBACK v3 code 0x83", V311, sub(0x90, 0x83)},
		{"SUBACK v5 code 3", V5, sub(0x90, 0, 3)},
		{"SUBACK no codes", V311, sub(0x90)},
		{"SUBACK v5 no codes", V5, sub(0x90, 0)},
		{"UNSUBACK v3 with payload", V311, sub(0xB0, 0)},
		{"UNSUBACK v5 no codes", V5, sub(0xB0, 0)},
		{"UNSUBACK v5 code 1", V5, sub(0xB0, 0, 1)},
		// PING / DISCONNECT / AUTH
		{"PINGREQ with body", V311, unhex("c0 01 00")},
		{"PINGRESP with body", V5, unhex("d0 01 00")},
		{"DISCONNECT v3 with body", V311, unhex("e0 01 00")},
		{"DISCONNECT v5 bad code", V5, unhex("e0 01 01")},
		{"DISCONNECT v5 will delay", V5, unhex("e0 07 00 05 18 00 00 00 01")},
		{"DISCONNECT v5 trailing", V5, unhex("e0 03 00 00 00")},
		{"AUTH code without property length", V5, unhex("f0 01 18")},
		{"AUTH bad code", V5, unhex("f0 02 01 00")},
		{"AUTH session expiry", V5, unhex("f0 07 00 05 11 00 00 00 01")},
	}
	for _, c := range bad {
		p, n, err := Decode(c.b, c.v)
		if !isMalformed(err) || p != nil || n != 0 {
			t.Errorf("%s (v%d, %x): got %v, n=%d, err=%v; want MalformedError", c.name, c.v, c.b, p, n, err)
		}
	}
	good := []tc{
		{"password without username v5", V5, connect(5, "MQTT", 0x42, 0, "", "pw")},
		{"empty topic with alias", V5, pub5("", 0x23, 0, 1)},
		{"two subscription ids in PUBLISH", V5, pub5("a", 0x0B, 1, 0x0B, 1)},
		{"two identical user properties", V5, pub5("a", 0x26, 0, 1, 'k', 0, 0, 0x26, 0, 1, 'k', 0, 0)},
		{"max subscription id", V5, pub5("a", 0x0B, 0xFF, 0xFF, 0xFF, 0x7F)},
		{"v3.1 SUBSCRIBE with DUP", V31, sub(0x8A, "a", 1)},
		{"v3.1 UNSUBSCRIBE with DUP", V31, sub(0xAA, "a")},
		{"shared subscription", V5, sub(0x82, 0, "$share/g/+/x/#", 0x2A)},
		{"BOM and noncharacter in topic", V311, pkt(0x30, "\ufeff\uffff")},
		{"CONNECT decoded regardless of v", V5, connect(4, "MQTT", 2, "")},
		{"CONNECT decoded with v=0", 0, connect(5, "MQTT", 2, 0, "")},
		{"CONNACK topic alias max 0", V5, connack5(0x22, 0, 0)},
	}
	for _, c := range good {
		if _, n, err := Decode(c.b, c.v); err != nil || n != len(c.b) {
			t.Errorf("%s (v%d, %x): n=%d err=%v; want ok", c.name, c.v, c.b, n, err)
		}
	}
	if _, _, err := Decode(unhex("c0 00"), 7); err == nil || isMalformed(err) || err == ErrShort {
		t.Errorf("unsupported version: %v", err)
	}
	if (&MalformedError{"x"}).Error() == "" {
		t.Errorf("empty error text")
	}
}

// Every v5 reason code value against every packet type carrying one.
func TestReasonCodes(t *testing.T) {
	counts := map[byte]int{CONNACK: 22, PUBACK: 9, PUBREC: 9, PUBREL: 2, PUBCOMP: 2, SUBACK: 12, UNSUBACK: 7, DISCONNECT: 29, AUTH: 3}
	for typ, want := range counts {
		n := 0
		for c := 0; c < 256; c++ {
			p := &Packet{Type: typ}
			switch typ {
			case SUBACK, UNSUBACK:
				p.PacketID, p.Codes = 1, []byte{0, byte(c)}
			case PUBACK, PUBREC, PUBREL, PUBCOMP:
				p.PacketID, p.Code = 1, byte(c)
			default:
				p.Code = byte(c)
			}
			b, err := Encode(p, V5)
			if err != nil {
				t.Fatal(err)
			}
			q, _, err := Decode(b, V5)
			if ok := ValidReasonCode(typ, byte(c)); ok != (err == nil) || (ok && !Equal(p, q)) || (!ok && !isMalformed(err)) {
				t.Errorf("%s code 0x%02x: valid=%t err=%v", TypeName(typ), c, ok, err)
			} else if ok {
				n++
			}
		}
		if n != want {
			t.Errorf("%s: %d reason codes, spec lists %d", TypeName(typ), n, want)
		}
	}
}

// ------------------------------------------------------------ Reader

func TestReader(t *testing.T) {
	g := gen{rand.New(rand.NewSource(3))}
	var stream bytes.Buffer
	var want [][]byte
	for i := 0; i < 300; i++ {
		b, err := Encode(g.packet(byte(2+g.Intn(13)), V5, false), V5)
		if err != nil {
			t.Fatal(err)
		}
		want = append(want, b)
		stream.Write(b)
	}
	all := stream.Bytes()
	r := NewReader(iotest.OneByteReader(bytes.NewReader(all)), V311)
	r.SetVersion(V5)
	for i, w := range want {
		p, raw, err := r.ReadPacket()
		q, _, _ := Decode(w, V5)
		if err != nil || !bytes.Equal(raw, w) || !Equal(p, q) {
			t.Fatalf("packet %d: %v %x, want %x", i, err, raw, w)
		}
	}
	if _, _, err := r.ReadPacket(); err != io.EOF {
		t.Errorf("at end: %v", err)
	}
	for _, cut := range []int{1, 2, len(want[0]) - 1} {
		if len(want[0]) <= cut {
			continue
		}
		_, raw, err := NewReader(bytes.NewReader(all[:cut]), V5).ReadPacket()
		if err != io.ErrUnexpectedEOF || !bytes.Equal(raw, all[:cut]) {
			t.Errorf("cut %d: %x %v", cut, raw, err)
		}
	}
	for _, bad := range []string{"c0 80 00", "30 ff ff ff ff 7f", "c1 00 c0 00"} {
		if p, raw, err := NewReader(bytes.NewReader(unhex(bad)), V311).ReadPacket(); !isMalformed(err) || p != nil || len(raw) == 0 {
			t.Errorf("%s: %v %x %v", bad, p, raw, err)
		}
	}
}

// ------------------------------------------------------------ topics, Equal, String

func TestTopics(t *testing.T) {
	for f, want := range map[string]bool{
		"a": true, "/": true, "a/b": true, "#": true, "+": true, "a/#": true, "+/+": true, "/+": true, "+/": true, "a//b": true,
		"a/+/b": true, "+/b/#": true, "$SYS/#": true, "a b/c": true, "$share": true, "$shared/a": true, "中/+": true,
		"": false, "a/#/b": false, "a#": false, "#a": false, "a+/b": false, "a/+b": false, "a/b+": false, "#/": false, "##": false,
		"++": false, "a/\x00": false, "\xff": false, "\xed\xa0\x80": false,
		"$share/g/a": true, "$share/g/#": true, "$share/g/+/b": true, "$share/g//": true, "$share/g/$share/h/t": true,
		"$share/": false, "$share/g": false, "$share/g/": false, "$share//a": false, "$share/g+/a": false, "$share/#/a": false,
		"$share/g/a/#/b": false, "$share/g/a#": false,
	} {
		if got := ValidTopicFilter([]byte(f)); got != want {
			t.Errorf("ValidTopicFilter(%q) = %t", f, got)
		}
	}
	for n, want := range map[string]bool{"a": true, "/": true, "a/b/": true, "$SYS/x": true, " ": true, "\U0001F600": true,
		"": false, "a/+": false, "#": false, "a\x00": false, "\xc0\x80": false, "\xf4\x90\x80\x80": false} {
		if got := ValidTopicName([]byte(n)); got != want {
			t.Errorf("ValidTopicName(%q) = %t", n, got)
		}
	}
	if ValidTopicName(bytes.Repeat([]byte("a"), 65536)) || ValidTopicFilter(bytes.Repeat([]byte("a"), 65536)) {
		t.Errorf("65536-byte topic accepted")
	}
	for _, c := range []struct {
		in, share, rest string
		ok              bool
	}{
		{"$share/g/a/b", "g", "a/b", true}, {"$share/g/#", "g", "#", true}, {"$share/g//", "g", "/", true},
		{"a/b", "", "a/b", false}, {"$share/g", "", "$share/g", false}, {"$share//a", "", "$share//a", false},
		{"$share/g/", "", "$share/g/", false}, {"$share/+/a", "", "$share/+/a", false}, {"$SHARE/g/a", "", "$SHARE/g/a", false},
	} {
		if s, r, ok := SplitShare(c.in); s != c.share || r != c.rest || ok != c.ok {
			t.Errorf("SplitShare(%q) = %q %q %t", c.in, s, r, ok)
		}
	}
	for _, c := range []struct {
		name, filter string
		want         bool
	}{
		{"sport", "sport/#", true}, {"sport/tennis/player1", "sport/#", true}, {"sport/", "sport/#", true}, {"sports", "sport/#", false},
		{"sport/tennis/player1/ranking", "sport/tennis/player1/#", true}, {"sport/tennis/player1", "sport/tennis/player1/#", true},
		{"sport/tennis/player1", "sport/tennis/+", true}, {"sport/tennis/player1/ranking", "sport/tennis/+", false},
		{"sport", "sport/+", false}, {"sport/", "sport/+", true}, {"sport/", "sport", false}, {"sport", "sport/", false},
		{"/finance", "+/+", true}, {"/finance", "/+", true}, {"/finance", "+", false}, {"/finance", "#", true},
		{"a/", "a/+", true}, {"a", "a/+", false}, {"a", "a", true}, {"a", "A", false}, {"a/b", "a", false}, {"a", "a/b", false},
		{"a/b/c", "a/+/c", true}, {"a//c", "a/+/c", true}, {"a/b/c", "+/+/+", true}, {"a/b/c", "+/+", false}, {"a/b", "+/#", true},
		{"a", "+/#", true}, {"a", "#", true}, {"/", "#", true}, {"/", "+/+", true}, {"/", "+", false}, {"/", "/", true}, {"/a", "a", false},
		{"$SYS/x", "#", false}, {"$SYS/x", "+/x", false}, {"$SYS", "+", false}, {"$SYS", "#", false}, {"$SYS/x", "$SYS/#", true},
		{"$SYS/x", "$SYS/+", true}, {"$SYS", "$SYS/#", true}, {"a/$SYS", "a/+", true}, {"a/$SYS", "#", true}, {"$SYS/x", "+/#", false},
		{"a/+", "a/+", false}, {"", "#", false}, {"a", "", false}, {"a/b", "a/#/b", false}, {"a#", "a#", false},
		{"中/\U0001F600", "中/+", true}, {"$share/g/a", "$share/g/a", true}, {"a", "$share/g/a", false},
	} {
		if got := TopicMatch(c.name, c.filter); got != c.want {
			t.Errorf("TopicMatch(%q, %q) = %t", c.name, c.filter, got)
		}
	}
}

func TestEqualAndString(t *testing.T) {
	a := &Packet{Type: PUBLISH, Topic: "t", Payload: []byte{}, Props: &Props{CorrelationData: []byte{}, User: []UserProp{}}}
	b := &Packet{Type: PUBLISH, Topic: "t"}
	if !Equal(a, b) || !Equal(nil, nil) || Equal(a, nil) || Equal(nil, b) {
		t.Errorf("nil/empty equivalence")
	}
	for i, mod := range []func(p *Packet){
		func(p *Packet) { p.Topic = "u" }, func(p *Packet) { p.Payload = []byte{0} }, func(p *Packet) { p.QoS = 1 },
		func(p *Packet) { p.Props = &Props{HasCorrelationData: true} }, func(p *Packet) { p.Props = &Props{TopicAlias: ptr(uint16(1))} },
		func(p *Packet) { p.Props = &Props{User: []UserProp{{"a", "b"}}} }, func(p *Packet) { p.WillProps = &Props{WillDelay: ptr(uint32(0))} },
		func(p *Packet) { p.Type = PUBACK }, func(p *Packet) { p.Codes = []byte{0} }, func(p *Packet) { p.Subs = []Sub{{Filter: "a"}} },
	} {
		c := *b
		if mod(&c); Equal(b, &c) {
			t.Errorf("modification %d not detected", i)
		}
	}
	x, y := &Packet{Props: &Props{TopicAlias: ptr(uint16(7))}}, &Packet{Props: &Props{TopicAlias: ptr(uint16(7))}}
	if !Equal(x, y) || !Equal(&Packet{Type: CONNECT, Username: "u"}, &Packet{Type: CONNECT, Username: "u", HasUsername: true}) {
		t.Errorf("pointer value / HasUsername equivalence")
	}
	p := &Packet{Type: PUBLISH, QoS: 1, PacketID: 9, Topic: "a/b", Payload: bytes.Repeat([]byte("z"), 100), Props: &Props{TopicAlias: ptr(uint16(7))}}
	s := p.String()
	for _, want := range []string{"PUBLISH{", "qos=1", "pid=9", `topic="a/b"`, "(100)", "TopicAlias=7"} {
		if !strings.Contains(s, want) {
			t.Errorf("String() = %s lacks %s", s, want)
		}
	}
	if strings.Count(s, "z") != 32 || (*Packet)(nil).String() != "<nil>" {
		t.Errorf("payload truncation: %s", s)
	}
	for i := byte(1); i <= 15; i++ {
		if TypeName(i) == "" || !strings.HasPrefix((&Packet{Type: i}).String(), TypeName(i)) {
			t.Errorf("TypeName(%d)", i)
		}
	}
	if TypeName(CONNECT) != "CONNECT" || TypeName(AUTH) != "AUTH" || TypeName(200) == "" {
		t.Errorf("TypeName")
	}
}
