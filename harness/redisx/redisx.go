// Package redisx wires gmqtt's redis-backed stores to the in-process fakeredis server.
package redisx

import (
	"errors"
	"sync/atomic"
	"time"

	redigo "github.com/gomodule/redigo/redis"

	"github.com/DrmagicE/gmqtt/persistence/queue"
	redisq "github.com/DrmagicE/gmqtt/persistence/queue/redis"
	"github.com/DrmagicE/gmqtt/persistence/subscription"
	redissub "github.com/DrmagicE/gmqtt/persistence/subscription/redis"

	"verif/harness/fakeredis"
)

// Env is one fake redis server plus a connection pool to it.
type Env struct {
	Srv  *fakeredis.Server
	Pool *redigo.Pool
	fail int32 // > 0: the next Flush / Do on a pooled connection fails as on a broken connection
}

// FailNext makes the next Flush or Do of any connection of this env's pool return an error without sending
// anything (a connection that broke while it was idle).
func (e *Env) FailNext() { atomic.StoreInt32(&e.fail, 1) }

// FailPending reports whether an armed failure has not been consumed yet, and disarms it.
func (e *Env) FailPending() bool { return atomic.SwapInt32(&e.fail, 0) == 1 }

var errInjected = errors.New("verif: injected connection failure")

type faultConn struct {
	redigo.Conn
	e *Env
}

func (c *faultConn) Flush() error {
	if atomic.CompareAndSwapInt32(&c.e.fail, 1, 0) {
		_ = c.Conn.Close() // the connection is dead: what was buffered never reaches the server
		return errInjected
	}
	return c.Conn.Flush()
}

func (c *faultConn) Do(cmd string, args ...interface{}) (interface{}, error) {
	if cmd != "" && atomic.CompareAndSwapInt32(&c.e.fail, 1, 0) {
		_ = c.Conn.Close()
		return nil, errInjected
	}
	return c.Conn.Do(cmd, args...)
}

// NewEnv starts a fresh fake redis.
func NewEnv() (*Env, error) {
	s, err := fakeredis.Start()
	if err != nil {
		return nil, err
	}
	// SCAN in small pages with MATCH applied afterwards (empty pages before the end), as a grown redis does
	s.SetScanPage(3)
	e := &Env{Srv: s}
	addr := s.Addr()
	e.Pool = &redigo.Pool{
		MaxIdle: 16, IdleTimeout: 240 * time.Second,
		Dial: func() (redigo.Conn, error) {
			c, err := redigo.Dial("tcp", addr)
			if err != nil {
				return nil, err
			}
			return &faultConn{Conn: c, e: e}, nil
		},
	}
	return e, nil
}

// NewPool builds a pool the way persistence.NewRedis does.
func NewPool(addr string) *redigo.Pool {
	return &redigo.Pool{
		MaxIdle: 16, IdleTimeout: 240 * time.Second,
		Dial: func() (redigo.Conn, error) { return redigo.Dial("tcp", addr) },
	}
}

func (e *Env) Close() {
	_ = e.Pool.Close()
	_ = e.Srv.Close()
}

// Flush empties the keyspace (between histories, cheaper than a new server).
func (e *Env) Flush() {
	c := e.Pool.Get()
	defer c.Close()
	_, _ = c.Do("FLUSHALL")
}

// SubStore returns the redis subscription wrapper on this env.
func (e *Env) SubStore() subscription.Store { return redissub.New(e.Pool) }

// Queue returns a redis queue on this env.
func (e *Env) Queue(capacity int, inflightExpiry time.Duration, clientID string, def queue.Notifier) (queue.Store, error) {
	return redisq.New(redisq.Options{MaxQueuedMsg: capacity, InflightExpiry: inflightExpiry, ClientID: clientID, Pool: e.Pool, DefaultNotifier: def})
}
