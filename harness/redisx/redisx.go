// Package redisx wires gmqtt's redis-backed stores to the in-process fakeredis server.
package redisx

import (
	"time"

	redigo "github.com/gomodule/redigo/redis"

	"github.com/DrmagicE/gmqtt/persistence/queue"
	redisq "github.com/DrmagicE/gmqtt/persistence/queue/redis"
	"github.com/DrmagicE/gmqtt/persistence/subscription"
	redissub "github.com/DrmagicE/gmqtt/persistence/subscription/redis"

	"verif/harness/fakeredis"
)

// Env is one fake redis server plus a connection pool to it.
type Env struct {
	Srv  *fakeredis.Server
	Pool *redigo.Pool
}

// NewEnv starts a fresh fake redis.
func NewEnv() (*Env, error) {
	s, err := fakeredis.Start()
	if err != nil {
		return nil, err
	}
	return &Env{Srv: s, Pool: NewPool(s.Addr())}, nil
}

// NewPool builds a pool the way persistence.NewRedis does.
func NewPool(addr string) *redigo.Pool {
	return &redigo.Pool{
		MaxIdle: 16, IdleTimeout: 240 * time.Second,
		Dial: func() (redigo.Conn, error) { return redigo.Dial("tcp", addr) },
	}
}

func (e *Env) Close() {
	_ = e.Pool.Close()
	_ = e.Srv.Close()
}

// Flush empties the keyspace (between histories, cheaper than a new server).
func (e *Env) Flush() {
	c := e.Pool.Get()
	defer c.Close()
	_, _ = c.Do("FLUSHALL")
}

// SubStore returns the redis subscription wrapper on this env.
func (e *Env) SubStore() subscription.Store { return redissub.New(e.Pool) }

// Queue returns a redis queue on this env.
func (e *Env) Queue(capacity int, inflightExpiry time.Duration, clientID string, def queue.Notifier) (queue.Store, error) {
	return redisq.New(redisq.Options{MaxQueuedMsg: capacity, InflightExpiry: inflightExpiry, ClientID: clientID, Pool: e.Pool, DefaultNotifier: def})
}
