// Package refmodel contains small deterministic reference models written from
// the property statements and the MQTT specification, not from gmqtt's code.
package refmodel

import (
	"strings"
	"unicode/utf8"
)

// Match decides MQTT 4.7 matching of a topic NAME against a non-shared FILTER.
// '+' matches exactly one level (also an empty one), '#' matches any number of
// levels including the parent level, and a filter that starts with a wildcard
// never matches a name that starts with '$' (4.7.2).
func Match(name, filter string) bool {
	if len(name) > 0 && name[0] == '$' {
		if len(filter) > 0 && (filter[0] == '+' || filter[0] == '#') {
			return false
		}
	}
	n := strings.Split(name, "/")
	f := strings.Split(filter, "/")
	for i, fl := range f {
		if fl == "#" {
			return true // matches the parent level and everything below
		}
		if i >= len(n) {
			return false
		}
		if fl == "+" {
			continue
		}
		if fl != n[i] {
			return false
		}
	}
	return len(n) == len(f)
}

// ValidString: MQTT 1.5.4 UTF-8 encoded string (well-formed UTF-8, no U+0000,
// no surrogates - Go's utf8.Valid already rejects encoded surrogates).
func ValidString(s string) bool {
	if len(s) > 65535 || !utf8.ValidString(s) {
		return false
	}
	return !strings.ContainsRune(s, 0)
}

// ValidName: topic name, at least one character, no wildcards (4.7.3).
func ValidName(s string) bool {
	return len(s) > 0 && ValidString(s) && !strings.ContainsAny(s, "+#")
}

// ValidPlainFilter: a filter without share prefix (4.7.1).
func ValidPlainFilter(s string) bool {
	if len(s) == 0 || !ValidString(s) {
		return false
	}
	lv := strings.Split(s, "/")
	for i, l := range lv {
		if strings.Contains(l, "#") && (l != "#" || i != len(lv)-1) {
			return false
		}
		if strings.Contains(l, "+") && l != "+" {
			return false
		}
	}
	return true
}

// SplitShare splits "$share/<name>/<filter>".
func SplitShare(f string) (share, rest string, shared bool) {
	if !strings.HasPrefix(f, "$share/") {
		return "", f, false
	}
	p := strings.SplitN(f, "/", 3)
	if len(p) < 3 {
		return "", "", true
	}
	return p[1], p[2], true
}

// ValidFilter: v5 filter including shared subscriptions (4.8.2).
func ValidFilter(s string) bool {
	share, rest, shared := SplitShare(s)
	if !shared {
		return ValidPlainFilter(s)
	}
	if share == "" || strings.ContainsAny(share, "+#/") {
		return false
	}
	return ValidPlainFilter(rest)
}
