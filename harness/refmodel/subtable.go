package refmodel

import (
	"fmt"
	"sort"
	"strings"
)

// Sub is the reference representation of one stored subscription.
type Sub struct {
	Client string
	Share  string // "" for non-shared
	Filter string // without share prefix
	ID     uint32
	QoS    byte
	NL     bool
	RAP    bool
	RH     byte
}

// Full returns the full filter including the share prefix.
func (s Sub) Full() string {
	if s.Share != "" {
		return "$share/" + s.Share + "/" + s.Filter
	}
	return s.Filter
}

func (s Sub) String() string {
	return fmt.Sprintf("%s|%s|id%d|q%d|nl%v|rap%v|rh%d", s.Client, s.Full(), s.ID, s.QoS, s.NL, s.RAP, s.RH)
}

// SubTable is the reference subscription table: client -> full filter -> Sub.
type SubTable struct {
	T           map[string]map[string]Sub
	Total       uint64
	ClientTotal map[string]uint64
	Known       map[string]bool // clients that ever subscribed
}

func NewSubTable() *SubTable {
	return &SubTable{T: map[string]map[string]Sub{}, ClientTotal: map[string]uint64{}, Known: map[string]bool{}}
}

// Subscribe installs s (latest options win); returns whether it existed before.
func (t *SubTable) Subscribe(s Sub) (existed bool) {
	m := t.T[s.Client]
	if m == nil {
		m = map[string]Sub{}
		t.T[s.Client] = m
	}
	t.Known[s.Client] = true
	_, existed = m[s.Full()]
	m[s.Full()] = s
	if !existed {
		t.Total++
		t.ClientTotal[s.Client]++
	}
	return existed
}

// Unsubscribe removes one full filter of a client; reports whether it was live.
func (t *SubTable) Unsubscribe(client, full string) bool {
	m := t.T[client]
	if _, ok := m[full]; !ok {
		return false
	}
	delete(m, full)
	return true
}

// UnsubscribeAll removes everything of a client.
func (t *SubTable) UnsubscribeAll(client string) { delete(t.T, client) }

// Current is the number of live subscriptions (all kinds).
func (t *SubTable) Current() uint64 {
	var n uint64
	for _, m := range t.T {
		n += uint64(len(m))
	}
	return n
}

func (t *SubTable) ClientCurrent(c string) uint64 { return uint64(len(t.T[c])) }

// All returns every live subscription.
func (t *SubTable) All() []Sub {
	var out []Sub
	for _, m := range t.T {
		for _, s := range m {
			out = append(out, s)
		}
	}
	return out
}

// MatchName returns the live subscriptions selected by pred whose filter matches name.
func (t *SubTable) Matching(name string, pred func(Sub) bool) []Sub {
	var out []Sub
	for _, s := range t.All() {
		if pred(s) && Match(name, s.Filter) {
			out = append(out, s)
		}
	}
	return out
}

// Canon renders a multiset of subs canonically.
func Canon(subs []Sub) string {
	ss := make([]string, len(subs))
	for i, s := range subs {
		ss[i] = s.String()
	}
	sort.Strings(ss)
	return strings.Join(ss, " ; ")
}

// StateKey is a canonical rendering of the whole table (for distinct-state counting).
func (t *SubTable) StateKey() string { return Canon(t.All()) }
