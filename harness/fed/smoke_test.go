//go:build verif

package fed

import (
	"fmt"
	"testing"
	"time"

	"verif/harness/mqttx"
	"verif/harness/wire"
)

func TestFedSmoke(t *testing.T) {
	t0 := time.Now()
	a, err := Start("smokeA", nil, false, nil)
	if err != nil {
		t.Fatal(err)
	}
	defer a.Stop()
	b, err := Start("smokeB", []string{a.Gossip}, true, nil)
	if err != nil {
		t.Fatal(err)
	}
	defer b.Stop()
	fmt.Println("started", time.Since(t0))
	ok1, ok2 := WaitView(a, b, 5*time.Second), WaitView(b, a, 5*time.Second)
	fmt.Println("views", ok1, ok2, time.Since(t0), a.F.VerifPeers(), b.F.VerifPeers())
	c, _ := wire.Dial("c", a.B.Addr, mqttx.V5)
	c.Connect(&mqttx.Packet{ClientID: "ca", CleanStart: true}, 5*time.Second)
	c.Subscribe([]mqttx.Sub{{Filter: "t/#", QoS: 1}}, 0, 5*time.Second)
	fmt.Println("view sync", WaitView(b, a, 5*time.Second), b.F.VerifFedView("smokeA"), time.Since(t0))
	p, _ := wire.Dial("p", b.B.Addr, mqttx.V5)
	p.Connect(&mqttx.Packet{ClientID: "pb", CleanStart: true}, 5*time.Second)
	p.Publish(&mqttx.Packet{Topic: "t/x", QoS: 1, Payload: []byte("hello")}, 5*time.Second)
	fmt.Println("delivered", c.WaitPayload("hello", 5*time.Second), time.Since(t0))
	fmt.Println(AppliedBy("smokeA", ""), AppliedBy("smokeB", ""))
	up, down, conns, cuts := b.Proxy.Totals()
	fmt.Println("proxy", up, down, conns, cuts)
}
