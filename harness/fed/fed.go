//go:build verif

// Package fed starts in-process gmqtt nodes federated through real serf/gRPC on loopback.
package fed

import (
	"fmt"
	"net"
	"reflect"
	"sort"
	"sync"
	"time"

	"github.com/DrmagicE/gmqtt"
	"github.com/DrmagicE/gmqtt/config"
	"github.com/DrmagicE/gmqtt/persistence/subscription"
	"github.com/DrmagicE/gmqtt/plugin/federation"

	"verif/harness/broker"
	"verif/harness/faultproxy"
)

// Applied is one event a node applied (after duplicate suppression).
type Applied struct {
	Seq      int64
	T        time.Duration
	Local    string // applying node ("cluster/name")
	From     string
	Kind     string // sub | unsub | msg
	Topic    string
	Payload  string
	Retained bool
	ID       uint64
}

var (
	amu     sync.Mutex
	applied []Applied
	once    sync.Once
)

func install() {
	once.Do(func() {
		federation.SetVerifEventApplied(func(local, from string, ev *federation.Event) {
			a := Applied{Seq: broker.NextSeq(), T: broker.Now(), Local: local, From: from, ID: ev.Id}
			switch {
			case ev.GetSubscribe() != nil:
				a.Kind = "sub"
				a.Topic = ev.GetSubscribe().TopicFilter
				if s := ev.GetSubscribe().ShareName; s != "" {
					a.Topic = "$share/" + s + "/" + a.Topic
				}
			case ev.GetUnsubscribe() != nil:
				a.Kind, a.Topic = "unsub", ev.GetUnsubscribe().TopicName
			case ev.GetMessage() != nil:
				a.Kind, a.Topic, a.Payload, a.Retained = "msg", ev.GetMessage().TopicName, string(ev.GetMessage().Payload), ev.GetMessage().Retained
			}
			amu.Lock()
			applied = append(applied, a)
			amu.Unlock()
		})
	})
}

// AppliedBy returns the events applied by node `local` that came from `from` (node names are cluster-unique).
func AppliedBy(local, from string) []Applied {
	amu.Lock()
	defer amu.Unlock()
	var out []Applied
	for _, a := range applied {
		if a.Local == local && (from == "" || a.From == from) {
			out = append(out, a)
		}
	}
	return out
}

// Node is one federated broker.
type Node struct {
	Name   string
	B      *broker.Broker
	F      *federation.Federation
	Gossip string
	FedAddr string
	Proxy  *faultproxy.Proxy // non-nil if the node advertises its federation address through a proxy
}

var (
	portMu   sync.Mutex
	usedPort = map[int]bool{}
	startMu  sync.Mutex // node start-ups are serialised: ports are probed and then bound by serf / gRPC
)

func freePort() (string, error) {
	portMu.Lock()
	defer portMu.Unlock()
	for i := 0; i < 50; i++ {
		l, err := net.Listen("tcp", "127.0.0.1:0")
		if err != nil {
			return "", err
		}
		a := l.Addr().(*net.TCPAddr)
		l.Close()
		// the gossip port needs UDP as well
		u, err := net.ListenUDP("udp", &net.UDPAddr{IP: a.IP, Port: a.Port})
		if err != nil {
			continue
		}
		u.Close()
		if usedPort[a.Port] {
			continue
		}
		usedPort[a.Port] = true
		return a.String(), nil
	}
	return "", fmt.Errorf("no free port")
}

// Start launches a node. name must be unique in the process (it identifies the node in the applied-event trace).
func Start(name string, join []string, viaProxy bool, extra func(c *config.Config)) (*Node, error) {
	install()
	startMu.Lock()
	defer startMu.Unlock()
	gossip, err := freePort()
	if err != nil {
		return nil, err
	}
	fedAddr, err := freePort()
	if err != nil {
		return nil, err
	}
	n := &Node{Name: name, Gossip: gossip, FedAddr: fedAddr}
	fc := &federation.Config{NodeName: name, FedAddr: fedAddr, GossipAddr: gossip, RetryJoin: join, RetryInterval: 200 * time.Millisecond, RetryTimeout: 10 * time.Second}
	if viaProxy {
		p, err := faultproxy.Start(fedAddr)
		if err != nil {
			return nil, err
		}
		n.Proxy = p
		fc.AdvertiseFedAddr = p.Addr()
	}
	if err := fc.Validate(); err != nil {
		return nil, err
	}
	b, err := broker.Start(broker.Options{Cfg: func(c *config.Config) {
		c.PluginOrder = []string{federation.Name}
		c.Plugins[federation.Name] = fc
		c.MQTT.MessageExpiry = 0
		c.Log.Level = "error"
		if extra != nil {
			extra(c)
		}
	}})
	if err != nil {
		if n.Proxy != nil {
			n.Proxy.Close()
		}
		return nil, err
	}
	n.B = b
	for _, p := range b.Srv.Plugins() {
		if f, ok := p.(*federation.Federation); ok {
			n.F = f
		}
	}
	if n.F == nil {
		b.Stop(5 * time.Second)
		return nil, fmt.Errorf("federation plugin not loaded")
	}
	return n, nil
}

// Stop stops the node (serf leave + shutdown via plugin Unload).
func (n *Node) Stop() {
	_ = n.B.Stop(10 * time.Second)
	if n.Proxy != nil {
		n.Proxy.Close()
	}
}

// ActualTopics returns the topic filters that really have a subscriber on node n, read from the broker's
// subscription store (ground truth, not the federation plugin's own book-keeping), in the format of VerifFedView.
func ActualTopics(n *Node) []string {
	set := map[string]bool{}
	n.B.Srv.SubscriptionService().Iterate(func(clientID string, sub *gmqtt.Subscription) bool {
		set[sub.ShareName+"|"+sub.TopicFilter] = true
		return true
	}, subscription.IterationOptions{Type: subscription.TypeAll})
	out := make([]string, 0, len(set))
	for k := range set {
		out = append(out, k)
	}
	sort.Strings(out)
	return out
}

// WaitView waits until node n's view of peer p equals the set of topic filters that really have a subscriber on p
// (and p's own book-keeping agrees, and n knows p), for at most d.
func WaitView(n, p *Node, d time.Duration) bool {
	deadline := time.Now().Add(d)
	for {
		knows := false
		for _, x := range n.F.VerifPeers() {
			if x == p.Name {
				knows = true
			}
		}
		if knows && reflect.DeepEqual(nonNil(n.F.VerifFedView(p.Name)), nonNil(p.F.VerifLocalTopics())) && reflect.DeepEqual(nonNil(p.F.VerifLocalTopics()), ActualTopics(p)) {
			return true
		}
		if time.Now().After(deadline) {
			return false
		}
		time.Sleep(5 * time.Millisecond)
	}
}

func nonNil(s []string) []string {
	if s == nil {
		return []string{}
	}
	return s
}
