#!/bin/bash
# MANIFEST.setup_cmd: build the harness (plain and -race) offline so that later checks are incremental.
set -u
ROOT="$(cd "$(dirname "$0")" && pwd)"
export GOFLAGS=-mod=mod GOPROXY=off
unset GOSUMDB
mkdir -p "$ROOT/bin" "$ROOT/out" "$ROOT/evidence"
cd "$ROOT/harness" || exit 1
cp -n /repo/go.sum go.sum 2>/dev/null
go build -tags verif -o "$ROOT/bin/verif" ./cmd/verif || GOSUMDB=off GOTOOLCHAIN=local go1.26 build -tags verif -o "$ROOT/bin/verif" ./cmd/verif || exit 1
go build -tags verif -race -o "$ROOT/bin/verif-race" ./cmd/verif || GOSUMDB=off GOTOOLCHAIN=local go1.26 build -tags verif -race -o "$ROOT/bin/verif-race" ./cmd/verif || exit 1
echo setup ok
