#!/bin/bash
# Re-runs every stored seeded change against the check of the property it breaks (quick tier, or $1) and prints a table.
cd /verif; export GOFLAGS=-mod=mod GOPROXY=off
tier=${1:-quick}
for d in seeded/*/; do
  n=$(basename $d); p=${n%-*}; m=${n#*-}
  out=$(tools/seeded.py $p $m --skip-confirm --tier $tier 2>&1 | grep "^check")
  echo "$n | $out"
done
