import json,subprocess
W={
"C01-m5":("unsubscribeAll prunes a node as soon as it has no clients, although it still has children","a client's whole session ends while it is the last subscriber of a filter that is a level-prefix of other clients' filters"),
"C01-m6":("inbound topic alias: a known alias wins over a topic name sent together with it (re-binding ignored)","v5 publisher that re-binds an alias it has already used to another topic"),
"C02-m5":("redis Subscribe updates the in-memory index before the Flush error check","the redis connection fails at Flush during a Subscribe"),
"C02-m6":("unsubscribeAll prune condition reads node.shared instead of node.children","UnsubscribeAll of the sole subscriber of a prefix filter"),
"C03-m5":("packet id skip loop no longer wraps at 65535 (uint16 overflow to 0)","id 65535 still unacknowledged when the counter comes round again"),
"C03-m6":("mem queue Add removes the victim before re-pointing the read cursor","full queue whose victim is exactly the read-cursor element with more elements behind it"),
"C04-m5":("unack id erased on any non-success PUBREC code, including 0x10 (no matching subscribers)","v5 publisher retransmitting the same QoS 2 PUBLISH twice before PUBREL"),
"C04-m6":("redis unack Set records the id in its cache before the HSET and keeps it when the HSET fails","redis refuses the HSET for that id; the client resumes (Clean Start 0) and retransmits"),
"C05-m5":("redis SetSessionExpiry writes to the key <id> instead of session:<id>","v5 DISCONNECT that changes the Session Expiry Interval, broker restart while the client is offline, reconnect between the two intervals"),
"C05-m6":("lockDuplicatedID returns after waiting for the displaced client without re-checking srv.clients","two or more simultaneous CONNECTs for a client id that is online"),
"C06-m5":("Properties.Pack returns its scratch buffer to the pool before it is copied out","two goroutines encoding v5 packets at once"),
"C06-m6":("one-byte variable-length bound off by one (128) in Message.TotalBytes","a property section / subscription identifier whose length is exactly 128"),
"C07-m5":("retained trie prunes ancestors bottom-up although they still hold a message","retained a/b and a/b/c, clear of a/b/c"),
"C07-m6":("a retained will with an empty payload is stored instead of clearing the retained message","will retain=1 with zero-length payload, a retained message on the will topic, connection lost"),
"C08-m5":("will delay capped by the CONNECT session expiry instead of the effective one","DISCONNECT 0x04 carrying another Session Expiry Interval, will delay between the two"),
"C08-m6":("the packet handler stops as soon as the connection is flagged closed: a DISCONNECT queued behind a slow PUBLISH is thrown away (select picks at random)","PUBLISH + DISCONNECT + close back to back while the handler is busy with the PUBLISH (slow hook)"),
"C09-m5":("redis ReadInflight rewrites replayed entries at the index inside the batch instead of the list index","more in-flight entries than the new connection's Receive Maximum (replay in several batches), inflight_expiry != 0, then a restart"),
"C09-m6":("session store Iterate stops at the first empty SCAN page","a store large enough for redis to return an empty page before the end (MATCH is applied after paging), restart"),
"C10-m5":("mem Read samples the time before it starts to wait","reader blocked longer than inflight_expiry, then Add on a full queue"),
"C10-m6":("redis queue readCache survives a clean Init","id in flight, Close, Init(clean), Remove(old id)"),
"C11-m5":("shared leaf pruned when one group empties although other groups remain on the filter","two share groups on one filter, one emptied"),
"C11-m6":("registerClient terminates the old session only on Clean Start: an expired, not yet swept session that reconnects with Clean Start 0 keeps its subscriptions under a new session","member offline longer than its expiry, reconnect with Clean Start 0 before the 20 s sweep"),
"C12-m5":("mem ReadInflight refreshes the expiry of the first not-yet-delivered element on resume","inflight_expiry != 0 (default), persistent session, the oldest offline message expired before the reconnect"),
"C12-m6":("lifetime computation ignores the publisher's interval when message_expiry is 0","message_expiry: 0 and a publisher interval"),
"C13-m5":("alias table allocated with uint16 arithmetic (65535+1 = 0)","topic_alias_maximum 65535 and a client that uses an alias"),
"C13-m6":("mem queue Init takes the read-bytes limit only on clean start","session resumed by a connection that declares a smaller Maximum Packet Size than the one that created it"),
"C14-m5":("initPluginHooks runs after the stored sessions are restored","persistent store, restart, message dropped for a restored session"),
"C14-m6":("QoS 2 packet id kept locked when OnMsgArrived rejects with exactly 0x80","v5, QoS 2, hook error that is no *codes.Error, then a new PUBLISH re-using the id"),
"C15-m5":("lockDuplicatedID without re-check after re-lock (same as C05-m6)","simultaneous CONNECTs with one client id"),
"C15-m6":("NotifyDropped releases the packet id without checking that a client is attached: nil limiter of a restored session, panic under srv.mu","restart on redis, restored full queue with an expired in-flight entry, a publish before anybody reconnects"),
"C16-m5":("fetchEvents skips the 101st pending event","more than 100 events pending at one fetch"),
"C16-m6":("sessionMgr.add rebinds an existing session without resetting the duplicate cache","emitter gets a new session id while the peer still holds the old session"),
"C17-m5":("OnWillPublishWrapper drops the iteration options returned by sendMessage","a WILL message matching a share group with members on the publishing node and another node, the group's turn on the remote node, a matching non-shared subscriber on the publishing node"),
"C17-m6":("sessionTerminatedLocked returns before OnSessionTerminated when a store reports an error","a store error (redis refusing a DEL) exactly while the last subscriber's session ends"),
"C18-m5":("wsConn.Read drops the buffer when exactly one unread byte is left","a WebSocket message one byte longer than the read request"),
"C18-m6":("serve() returns early for a connection that never completed CONNECT, skipping readWg.Wait: the pooled bufio.Reader is reused while the old read loop is alive","refused CONNECT, its read loop delayed after handing over a packet, another connection accepted meanwhile"),
"C19-m5":("bcrypt branch accepts on any error but mismatch","bcrypt and a stored value that is no bcrypt hash"),
"C19-m6":("enhanced auth only for a non-empty Authentication Method, basic auth only for a nil one","v5 CONNECT with an Authentication Method of length 0"),
"C20-m5":("sessionActive(oldSession == nil): taking over / replacing an existing session is not counted as created","new session over an existing one (clean start / expired)"),
"C20-m6":("NotifyDropped returns before booking the drop when no client is attached","restart on redis, restored full queue with an expired in-flight entry, a publish before anybody reconnects"),
}
import sys
old=sys.argv[1]
for n,(w,need) in W.items():
    p="/verif/seeded/%s/meta.json"%n
    m=json.load(open(p))
    m["what_it_changes"]=w; m["needs_to_manifest"]=need
    m["ran"]="tools/seeded.py: scratch worktree (build, 266 baseline tests, demo with/without), then git -C /repo apply; ./check <prop> quick; git -C /repo checkout -- ."
    if "first_run" not in m:
        o=json.loads(subprocess.run(["git","-C","/verif","show","%s:seeded/%s/meta.json"%(old,n)],capture_output=True,text=True).stdout)
        own=o["checks"].get(n.split("-")[0]+"/quick",{})
        others=[k for k,v in o["checks"].items() if v.get("exit")==1 and not k.startswith(n.split("-")[0])]
        m["first_run"]=("caught" if own.get("exit")==1 else ("missed by its own check"+(", caught by "+",".join(others) if others else "")))
    json.dump(m,open(p,"w"),indent=1)
print("ok")
