#!/usr/bin/env python3
"""Confirm a seeded change delivered by a mutation sub-agent and try the registered check against it.

usage: seeded.py <PROP> <mN> [--dest <path-in-repo>] [--cmd '<go test ...>'] [--tier quick|thorough] [--skip-confirm]

Stage 1 (scratch worktree /tmp/mut-<PROP>): the patch applies, the tree builds, the 266 baseline tests still pass,
the demonstration FAILS with the patch and PASSES without it.
Stage 2: copy to /verif/seeded/<PROP>-<mN>/ (patch.diff, demo/, meta.json).
Stage 3: git -C /repo apply patch; ./check <PROP> <tier>; git -C /repo checkout -- . (always).
"""
import sys, os, re, subprocess, json, shutil, glob, argparse
ap = argparse.ArgumentParser()
ap.add_argument("prop"); ap.add_argument("mn")
ap.add_argument("--dest"); ap.add_argument("--cmd"); ap.add_argument("--tier", default="quick")
ap.add_argument("--skip-confirm", action="store_true"); ap.add_argument("--confirm-only", action="store_true"); ap.add_argument("--skip-suite", action="store_true")
ap.add_argument("--as", dest="alias", default=None, help="store under /verif/seeded/<PROP>-<alias> (the sub-agent calls it m1/m2)")
ap.add_argument("--checks", default=None, help="comma list of property checks to run (default: the property itself)")
a = ap.parse_args()
WT = "/tmp/mut-" + a.prop
OUT = WT + "/out"
env = dict(os.environ, GOFLAGS="-mod=mod", GOPROXY="off"); env.pop("GOSUMDB", None)
def sh(cmd, cwd=None, check=False):
    p = subprocess.run(cmd, shell=True, cwd=cwd, env=env, capture_output=True, text=True)
    if check and p.returncode != 0:
        print(p.stdout[-3000:], p.stderr[-3000:]); sys.exit("FAILED: " + cmd)
    return p
patch = "%s/%s.diff" % (OUT, a.mn)
demodir = "%s/%s_demo" % (OUT, a.mn)
demos = sorted(glob.glob(demodir + "/*.go"))
head = "".join(open(demos[0]).readlines()[:6]) if demos else ""
dest = a.dest or (re.search(r"[Cc]opy (?:this file )?(?:to|into) `?([\w./-]+)", head) or [None, None])[1]
cmd = a.cmd or (re.search(r"(go test [^\n`]*)", head) or [None, None])[1]
print("dest:", dest, "| cmd:", cmd)
meta = {"property": a.prop, "change": a.alias or a.mn}
sd = "/verif/seeded/%s-%s" % (a.prop, a.alias or a.mn)
if not a.skip_confirm:
    assert dest and cmd
    sh("git checkout -- . && git clean -fdq -e out", WT, True)
    def place():
        d = os.path.join(WT, dest)
        if d.endswith(".go"):
            os.makedirs(os.path.dirname(d), exist_ok=True); shutil.copy(demos[0], d); return [d]
        os.makedirs(d, exist_ok=True); r = []
        for f in demos:
            shutil.copy(f, d); r.append(os.path.join(d, os.path.basename(f)))
        return r
    sh("git apply " + patch, WT, True)
    b = sh("go build ./... && go vet ./server/ 2>/dev/null; go build ./...", WT)
    if b.returncode != 0: print(b.stderr[-2000:]); sys.exit("does not build with patch")
    if not a.skip_suite:
        s = sh("python3 /verif/tools/baseline_check.py " + WT)
        print("suite with patch:", s.stdout.strip().splitlines()[0] if s.stdout.strip() else s.stderr[-500:])
        if s.returncode != 0: print(s.stdout[-2000:]); sys.exit("baseline suite does not pass with patch")
        meta["suite_with_patch"] = s.stdout.strip().splitlines()[0]
    placed = place()
    w = sh(cmd, WT)
    print("demo WITH patch: exit", w.returncode)
    for f in placed: os.remove(f)
    sh("git checkout -- . && git clean -fdq -e out", WT, True)
    placed = place()
    wo = sh(cmd, WT)
    print("demo WITHOUT patch: exit", wo.returncode)
    for f in placed: os.remove(f)
    sh("git clean -fdq -e out", WT)
    if w.returncode == 0 or wo.returncode != 0:
        print((w.stdout + w.stderr)[-1500:]); print("-----"); print((wo.stdout + wo.stderr)[-1500:])
        sys.exit("demonstration not confirmed")
    meta["demo"] = {"copy_to": dest, "command": cmd, "with_patch_exit": w.returncode, "without_patch_exit": wo.returncode,
                    "with_patch_tail": (w.stdout + w.stderr)[-800:]}
    os.makedirs(sd + "/demo", exist_ok=True)
    shutil.copy(patch, sd + "/patch.diff")
    for f in demos: shutil.copy(f, sd + "/demo/")
    if os.path.exists(OUT + "/README.md"): shutil.copy(OUT + "/README.md", sd + "/agent_README.md")
else:
    if os.path.exists(sd + "/meta.json"): meta = json.load(open(sd + "/meta.json"))
    patch = sd + "/patch.diff" if os.path.exists(sd + "/patch.diff") else patch
# stage 3
if a.confirm_only:
    os.makedirs(sd, exist_ok=True); json.dump(meta, open(sd + "/meta.json", "w"), indent=1); sys.exit(0)
st = sh("git status --porcelain", "/repo").stdout.strip()
if st: sys.exit("/repo is dirty: " + st)
results = meta.get("checks", {})
try:
    sh("git apply " + patch, "/repo", True)
    for c in (a.checks.split(",") if a.checks else [a.prop]):
        r = subprocess.run("./check %s %s" % (c, a.tier), shell=True, cwd="/verif", env=env, capture_output=True, text=True)
        viol = [l for l in (r.stdout + r.stderr).splitlines() if l.startswith("VIOLATION")]
        sigs = set()
        for l in viol:
            m = re.search(r"replay=(\S+)", l)
            try: sigs.add(json.load(open(m.group(1))).get("sig", "?"))
            except Exception: pass
        sigs = sorted(sigs)
        print("check %s %s: exit %d, %d VIOLATION lines, sigs: %s" % (c, a.tier, r.returncode, len(viol), sigs[:8]))
        if r.returncode not in (0, 1): print((r.stdout + r.stderr)[-2500:])
        results["%s/%s" % (c, a.tier)] = {"exit": r.returncode, "violations": len(viol), "sigs": sigs[:12]}
finally:
    sh("git checkout -- . && git clean -fdq", "/repo")
    # evidence files were rewritten by a run against a modified tree: restore the committed ones
    sh("git checkout -- evidence", "/verif")
meta["checks"] = results
os.makedirs(sd, exist_ok=True)
json.dump(meta, open(sd + "/meta.json", "w"), indent=1)
