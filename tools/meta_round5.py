import json,subprocess,sys
W={
"C01-m9":("unsubscribeAll prune condition reads node.shared instead of node.children (as C01-m8)","a session ends while it is the sole subscriber of a filter that is a level-prefix of other clients' filters"),
"C01-m10":("tryDecServerQuota decrements before the zero check: the publisher is disconnected (0x93) when it reaches the advertised Receive Maximum","a v5 publisher with exactly server_receive_maximum QoS>0 publications unacknowledged"),
"C02-m9":("redis Subscribe uses the bare topic filter as hash field","redis store, a client holding $share/G/F and F (or any shared unsubscribe), then a reload"),
"C02-m10":("unsubscribeAll prunes with path.Base(topicName) instead of the last level","UnsubscribeAll of a filter ending in an empty level while a sibling sub-tree carries the name of the level before it"),
"C03-m9":("the retained store hands out its own message objects instead of copies","a retained QoS>0 message replayed to two sessions that give it different packet identifiers, the first still unacknowledged"),
"C03-m10":("pollInflights drops replayed messages of exactly the Maximum Packet Size (>=)","unacknowledged message whose PUBLISH is exactly as large as the declared maximum, then a resume"),
"C04-m9":("the quota unit of a refused QoS 2 PUBLISH (PUBREC >= 0x80) is no longer given back","server_receive_maximum refusals by OnMsgArrived on one connection, one at a time"),
"C04-m10":("redis unack Init parses the stored ids with ParseInt(..,16): ids >= 32768 are skipped","redis, QoS 2 id >= 32768 awaiting PUBREL, broker restart, retransmission"),
"C05-m9":("disconnectHandler records the DISCONNECT before validating it: the expiry of a refused DISCONNECT is applied","v5 session with expiry 0, DISCONNECT carrying a non-zero Session Expiry Interval, reconnect with Clean Start 0"),
"C05-m10":("registerClient no longer deletes the offlineClients entry of a resumed session (as C05-m7)","resume, stay connected past the old deadline, expiry sweep"),
"C06-m9":("getBuffer no longer resets the pooled buffer (as C06-m8)","a Pack that ends early (writer breaks inside a large packet, encoder refuses a field), then another Pack"),
"C06-m10":("propertyWriteString tests len(i) != 0 instead of i != nil","a string/binary property present with length 0"),
"C07-m9":("sendWillLocked always AddOrReplace: a retained will with empty payload no longer clears the topic","will with RETAIN=1 and empty payload that is actually published"),
"C07-m10":("retained trie remove unlinks every childless ancestor without looking at its message","clear of a/b while a holds a retained message and has no other descendant"),
"C08-m9":("removeSessionLocked deletes the pending will entry: registerClient no longer finds it","delayed will pending, Clean Start 1 reconnect before the delay: the will comes only when its timer fires"),
"C08-m10":("v5 DISCONNECT with remaining length 1 decoded as reason code 0x00","DISCONNECT E0 01 04 (with will message, property length omitted)"),
"C09-m9":("the unack store of a newly created session is no longer cleared (Init(true) dropped)","redis, QoS 2 id awaiting PUBREL, session replaced by Clean Start 1, resume, same id again"),
"C09-m10":("redis session Iterate stops at the first empty SCAN page","more keys than one SCAN page and a page without session keys"),
"C10-m9":("Elem.Encode returns a slice of a pooled buffer","redis queue: an element read in flight, another element encoded, then the first acknowledged"),
"C10-m10":("getVariablelenght limits written as 1<<7, 1<<14, ...: lengths of exactly 128 / 16384 counted one byte short","a message whose remaining / property length is exactly on the boundary and whose packet is limit+1 bytes"),
"C11-m9":("convertUint32 treats a present 0 as absent: DISCONNECT with Session Expiry Interval 0 no longer ends the session","group member that connected with a non-zero expiry and leaves with expiry 0"),
"C11-m10":("the offlineClients entry of a resumed session is kept (delete moved into the not-resumed branch)","member drops, resumes within its expiry and stays connected past the old deadline"),
"C12-m9":("mem ReadInflight refreshes the expiry of the first unread element (as C12-m7)","default inflight_expiry, resume, first offline message expired"),
"C12-m10":("publisher's interval ignored when message_expiry is 0 (as C12-m8)","message_expiry: 0 and a publisher interval"),
"C13-m9":("mem queue Init takes the protocol version only on clean start","session created by an MQTT 3.1.1 connection, resumed by an MQTT 5 one declaring a Maximum Packet Size"),
"C13-m10":("fifo alias manager deletes the new topic instead of the evicted one from its index","more distinct topics than the Topic Alias Maximum, then the evicted topic again"),
"C14-m9":("initPluginHooks after the stored sessions are restored (as C14-m8)","restart on a durable store, drop for a restored session"),
"C14-m10":("the id of a refused QoS 2 PUBLISH is forgotten only for codes > 0x80","OnMsgArrived refuses with exactly 0x80 (or a plain error), same packet id re-used"),
"C15-m9":("client.write checks client.close first and then blocks on client.out alone","subscriber that stops reading, full out channel, connection torn down"),
"C15-m10":("batchRelease returns early for an empty list with the limiter mutex held","one queue read that uses up every polled packet id (backlog >= free window)"),
"C16-m9":("the Subscribe event is built once and the same object queued for every peer (the per-peer id is written into it)","three nodes, per-peer streams that advanced differently, then a new subscription"),
"C16-m10":("sessionMgr.add re-uses the session object on a new session id (as C17-m7)","one-sided re-handshake after events had been exchanged"),
"C17-m9":("the full-state sync sends shared subscriptions under their full $share/... name as topic filter","shared subscription that reaches the peer through a full-state sync (peer joins or comes back later)"),
"C17-m10":("sessionMgr.add re-uses the session object on a new session id (as C17-m7)","one-sided re-handshake after events had been exchanged"),
"C18-m9":("readRemain returns a view into the bufio buffer (as C06-m7)","client that sends further WebSocket messages without waiting for acknowledgements"),
"C18-m10":("wsConn adapters recycled through a sync.Pool without resetting buf / r","a WebSocket connection given up with part of a message unread, then a new connection"),
"C19-m9":("initPluginHooks keeps only the OnBasicAuthWrapper of the first plugin","a second plugin with an OnBasicAuthWrapper ordered before auth"),
"C19-m10":("saveFileHandler returns early for an empty account list","the last account deleted through the API, then a restart"),
"C20-m9":("the final packet written by the write loop's shutdown branch is not booked","connection the broker ends with a DISCONNECT while the write loop sees client.close first"),
"C20-m10":("packets.TotalBytes: remaining length 16384 counted with a two-byte length field","a packet whose remaining length is exactly 16384"),
}
old=sys.argv[1]
for n,(w,need) in W.items():
    p="/verif/seeded/%s/meta.json"%n
    m=json.load(open(p))
    m["what_it_changes"]=w; m["needs_to_manifest"]=need
    m["ran"]="tools/seeded.py: scratch worktree (build, 266 baseline tests, demo with/without), then git -C /repo apply; ./check <prop> quick; git -C /repo checkout -- ."
    if "first_run" not in m:
        o=json.loads(subprocess.run(["git","-C","/verif","show","%s:seeded/%s/meta.json"%(old,n)],capture_output=True,text=True).stdout)
        own=o["checks"].get(n.split("-")[0]+"/quick",{})
        m["first_run"]="caught" if own.get("exit")==1 else "missed"
    json.dump(m,open(p,"w"),indent=1)
print("ok")
