import json,subprocess,sys
W={
"C01-m7":("readHandle returns as soon as the connection is flagged closing: packets already parsed into client.in are thrown away","publisher that writes a burst of PUBLISH packets (+ DISCONNECT) and closes at once"),
"C01-m8":("unsubscribeAll prune condition reads node.shared instead of node.children","a session ends while it is the sole subscriber of a filter that is a level-prefix of other clients' filters"),
"C02-m7":("lookup result map kept on the trie root and reused: concurrent lookups (read lock) share one map","two lookups by topic name overlapping in time on the mem store"),
"C02-m8":("redis Subscribe updates memory before the Flush result is known","the redis connection breaks when the pipelined HSETs are flushed"),
"C03-m7":("mem queue Add takes the 'front message' victim from the read position","resumed session, full queue, an Add between Init and the in-flight replay"),
"C03-m8":("msg.Dup = false removed from the per-subscriber normalisation","a publisher that sends a new QoS>0 PUBLISH with the DUP flag set"),
"C04-m7":("a new session re-uses the unack store of the ended session (Init(cleanStart) instead of a fresh store)","QoS2 PUBLISH without PUBREL, the session ends (expiry), reconnect with Clean Start 0 and Session Present 0, same packet id again"),
"C04-m8":("redis unack Set caches the id before the HSET and keeps it on error","one refused HSET, resume in the same process, retransmission"),
"C05-m7":("registerClient no longer deletes the offlineClients entry of a resumed session","resume, stay connected past the old deadline, expiry sweep"),
"C05-m8":("removeSessionLocked returns at the first store error","queue Clean fails while a session ends; then a Clean Start 0 reconnect"),
"C06-m7":("readRemain returns a view into the bufio buffer (Peek+Discard) instead of a copy","a caller that keeps a decoded packet while the Reader reads on (the broker's read loop / handler pair)"),
"C06-m8":("getBuffer no longer resets the pooled buffer","a Pack whose writer breaks in the middle of the packet, then another Pack"),
"C07-m7":("publishHandler forwards to subscribers before it updates the retained store","a SUBSCRIBE on another connection landing between the subscriber lookup and the store update"),
"C07-m8":("retained trie remove prunes upwards deleting the key of the LAST level at every level","clear of a/b/x where a/b becomes empty and a sibling a/x (same last-level name) exists"),
"C08-m7":("readHandle selects on client.close: a DISCONNECT queued behind other packets is skipped","pipelined PUBLISH packets + DISCONNECT + close while the handler is busy"),
"C08-m8":("registerClient returns after sessionTerminatedLocked reports an error: the pending will is not released","pending delayed will, Clean Start 1 reconnect before the delay, a store error at that moment"),
"C09-m7":("start-up deadline of a stored session = ConnectedAt + expiry","session connected longer than its expiry when the broker dies"),
"C09-m8":("redis unack Set caches the id before the HSET (same as C04-m8)","refused HSET, resume in the same process, retransmission"),
"C10-m7":("mem Add moves the read cursor only for non-inflight victims","resumed full queue whose front in-flight entry has expired, Add between Init and ReadInflight"),
"C10-m8":("redis Add sets drop=true only after the LRANGE succeeded","full queue and redis refusing exactly that LRANGE"),
"C11-m7":("share group on a $-filter is stored in the system trie","shared subscription on a $-prefixed filter and a member leaving by session end"),
"C11-m8":("removeSessionLocked early return (same as C05-m8)","queue Clean fails while a group member's session ends"),
"C12-m7":("mem ReadInflight refreshes the expiry of the first unread element","default inflight_expiry, resume, first offline message expired"),
"C12-m8":("publisher's interval ignored when message_expiry is 0","message_expiry: 0 and a publisher interval"),
"C13-m7":("receive-maximum credit booked after the acknowledgement is written","client that sends its next PUBLISH right after the ack at a full window"),
"C13-m8":("mem queue Init takes the byte limit only on clean start","session resumed with a smaller Maximum Packet Size"),
"C14-m7":("lockDuplicatedID reads the session once, before the old connection is closed","take-over of an online expiry-0 session: the ended session is terminated a second time"),
"C14-m8":("initPluginHooks after the stored sessions are restored","restart on a durable store, drop for a restored session"),
"C15-m7":("willMsg.signal made a blocking send on an unbuffered channel","will timer fires while a resume / take-over / TerminateSession holds srv.mu and has not signalled yet"),
"C15-m8":("client.write waits on client.closed instead of client.close","peer that stops reading, full out channel, connection reset"),
"C16-m7":("full resynchronisation queues a snapshot of the topics without holding the lock","an UNSUBSCRIBE of a last subscriber between the snapshot and the queueing"),
"C16-m8":("setReadPosition first rewinds to the oldest unacknowledged event","more than 100 applied events whose acks were lost, resume without clean start, nothing new emitted"),
"C17-m7":("sessionMgr.add re-uses the session object (duplicate cache survives) on a new session id","one-sided re-handshake after events had been exchanged"),
"C17-m8":("OnSessionTerminatedWrapper returns early for TakenOverTermination","stored session of the only subscriber replaced by a Clean Start 1 reconnect that does not subscribe"),
"C18-m7":("pooled bufio writer returned after the read loop ended, before the write loop is joined","a connection dropped while its write loop still has packets, another WebSocket connection accepted meanwhile"),
"C18-m8":("SetReadLimit(max_packet_size) on the WebSocket connection","small max_packet_size and a binary message packing many packets"),
"C19-m7":("password file written outside the lock","several account API calls in flight, then a restart"),
"C19-m8":("enhanced auth only for a non-empty method, basic auth only for a nil one","v5 CONNECT with a zero-length Authentication Method"),
"C20-m7":("sessionActive(oldSession == nil || CleanStart) replaces the per-branch calls","expired, not yet swept session replaced by a Clean Start 0 reconnect"),
"C20-m8":("sessionTerminatedLocked returns before hook and statistics on a store error","a session ends while a clean-up store call fails"),
}
old=sys.argv[1]
for n,(w,need) in W.items():
    p="/verif/seeded/%s/meta.json"%n
    m=json.load(open(p))
    m["what_it_changes"]=w; m["needs_to_manifest"]=need
    m["ran"]="tools/seeded.py: scratch worktree (build, 266 baseline tests, demo with/without), then git -C /repo apply; ./check <prop> quick; git -C /repo checkout -- ."
    if "first_run" not in m:
        o=json.loads(subprocess.run(["git","-C","/verif","show","%s:seeded/%s/meta.json"%(old,n)],capture_output=True,text=True).stdout)
        own=o["checks"].get(n.split("-")[0]+"/quick",{})
        m["first_run"]="caught" if own.get("exit")==1 else "missed"
    json.dump(m,open(p,"w"),indent=1)
print("ok")
