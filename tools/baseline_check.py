#!/usr/bin/env python3
"""Runs the repository's baseline suite with the verif guard OFF and compares with /root/.vp/BASELINE.json stable_pass."""
import json, subprocess, sys, os
env = dict(os.environ, GOFLAGS="-mod=mod", GOPROXY="off")
env.pop("GOSUMDB", None)
REPO = sys.argv[1] if len(sys.argv) > 1 else "/repo"
p = subprocess.run("cd " + REPO + " && go test -json -vet=off -count=1 -timeout 25m ./...", shell=True, env=env, capture_output=True, text=True)
res = {}
for line in p.stdout.splitlines():
    try:
        e = json.loads(line)
    except Exception:
        continue
    if e.get("Test") and e.get("Action") in ("pass", "fail", "skip"):
        res[e["Package"] + "::" + e["Test"]] = e["Action"]
base = json.load(open("/root/.vp/BASELINE.json"))
bad = [t for t in base["stable_pass"] if res.get(t) != "pass"]
print("stable_pass tests: %d, passing now: %d" % (len(base["stable_pass"]), len(base["stable_pass"]) - len(bad)))
for t in bad:
    print("NOT PASSING:", t, res.get(t))
sys.exit(1 if bad else 0)
