#!/bin/bash
# tools/sweep.sh <tier> <seed>...   - runs every check at the given tier and seeds, prints one line per run,
# exits 1 if any run was not silent. Evidence files are those of the LAST seed given.
cd /verif
tier=${1:-quick}; shift
seeds=${@:-1}
bad=0
for s in $seeds; do
  for p in C01 C02 C03 C04 C05 C06 C07 C08 C09 C10 C11 C12 C13 C14 C15 C16 C17 C18 C19 C20; do
    out=$(VERIF_SEED=$s ./check $p $tier 2>&1); rc=$?
    line=$(echo "$out" | grep "^$p $tier")
    echo "rc=$rc $line"
    if [ $rc -ne 0 ] || echo "$out" | grep -q "^VIOLATION\|^BROKEN\|^INCONCLUSIVE"; then
      bad=1; echo "$out" | grep "^VIOLATION\|^  sig=\|^BROKEN\|^INCONCLUSIVE" | head -6
    fi
  done
done
exit $bad
