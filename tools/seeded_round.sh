#!/bin/bash
# tools/seeded_round.sh <suffixes...>  - re-runs the stored seeded changes whose name ends in one of the suffixes (e.g. m5 m6)
# against the quick check of their own property and prints one line each. /repo must be clean; nothing else may run checks meanwhile.
cd /verif; export GOFLAGS=-mod=mod GOPROXY=off
for d in seeded/*/; do
  n=$(basename $d); p=${n%-*}; m=${n#*-}
  ok=0; for s in "$@"; do [ "$m" = "$s" ] && ok=1; done; [ $ok = 1 ] || continue
  out=$(tools/seeded.py $p $m --skip-confirm --tier quick 2>&1 | grep "^check")
  echo "$n | $out"
done
