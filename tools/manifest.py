#!/usr/bin/env python3
"""Generates /verif/MANIFEST.json from the table below (single source of truth)."""
import json, os
ROOT = os.path.dirname(os.path.dirname(os.path.abspath(__file__)))
ALL = ["C%02d" % i for i in range(1, 21)]

CHECKS = {
 "C02": dict(cat="exploration", technique="reference-model monitor over API histories (small-scope exhaustive + seeded random), differential TopicMatch",
   text="Every lookup kind of subscription.Store (mem and redis wrapper) is compared with a reference table + MQTT 4.7 matcher after every operation of exhaustively enumerated short histories and seeded random long histories; TopicMatch is compared on all valid pairs of a topic universe. Decides the executions produced, not all histories.",
   note="trusted: refmodel.Match/SubTable (written from MQTT 4.7), fakeredis for the redis wrapper; single-threaded use (concurrency is C15)", ref="§5 C02"),
}

def main():
    checks = []
    for pid in ALL:
        if pid not in CHECKS: continue
        c = CHECKS[pid]
        checks.append({
            "property_id": pid,
            "quick_cmd": "./check %s quick" % pid,
            "thorough_cmd": "./check %s thorough" % pid,
            "evidence_file": "evidence/%s.json" % pid,
            "replay_cmd_template": "./check %s --replay {path}" % pid,
            "engine": "harness",
            "level_claimed": {"category": c["cat"], "text": c["text"], "design_ref": "DESIGN.md " + c["ref"]},
            "level_note": c["note"],
            "technique": c["technique"],
        })
    hooks_commits = []
    hp = os.path.join(ROOT, "tools", "hook_commits.txt")
    if os.path.exists(hp):
        hooks_commits = [l.strip() for l in open(hp) if l.strip()]
    m = {
        "version": 1,
        "setup_cmd": "./setup.sh",
        "hooks": {
            "guard": "verif",
            "enable": "go build -tags verif (harness module replaces github.com/DrmagicE/gmqtt => /repo, so every check rebuilds /repo's working tree)",
            "baseline_off_cmd": "cd /repo && GOFLAGS=-mod=mod GOPROXY=off go test -json -vet=off -count=1 -timeout 25m ./...",
            "source_commits": hooks_commits,
            "add_only": True,
        },
        "engines": [{"name": "harness", "path": "harness/", "serves_properties": sorted(CHECKS.keys()),
                     "kind_free_text": "Go runtime-monitoring harness: in-process brokers driven over real sockets by an independent MQTT codec, reference-model oracles, recording hooks/persistence, fake redis with journal, fault proxy, Go race detector"}],
        "checks": checks,
        "not_applicable": [{"property_id": p, "reason": "check not built yet (work in progress, see DESIGN.md §5)"} for p in ALL if p not in CHECKS],
        "notes": "Technique family: runtime monitoring and sanitizers. ./check <ID> <tier> rebuilds the harness against /repo's working tree, runs the workload in a child process and maps verdicts to exit codes (0 held, 1 VIOLATION, 2 broken/inconclusive). Known findings: KNOWN_FINDINGS.",
    }
    json.dump(m, open(os.path.join(ROOT, "MANIFEST.json"), "w"), indent=1)
    print("MANIFEST.json written:", len(checks), "checks")
main()
