#!/usr/bin/env python3
"""Generates /verif/MANIFEST.json from the table below (single source of truth)."""
import json, os
ROOT = os.path.dirname(os.path.dirname(os.path.abspath(__file__)))
ALL = ["C%02d" % i for i in range(1, 21)]

CHECKS = {
 "C02": dict(cat="exploration", technique="reference-model monitor over API histories (small-scope exhaustive + seeded random), differential TopicMatch",
   text="Every lookup kind of subscription.Store (mem and redis wrapper) is compared with a reference table + MQTT 4.7 matcher after every operation of exhaustively enumerated short histories and seeded random long histories; TopicMatch is compared on all valid pairs of a topic universe. Decides the executions produced, not all histories.",
   note="trusted: refmodel.Match/SubTable (written from MQTT 4.7), fakeredis for the redis wrapper; single-threaded histories plus concurrent read-only lookups (DESIGN §9.2)", ref="§5 C02"),
 "C01": dict(cat="exploration", technique="wire-level trace monitor vs reference delivery model; concurrent publishers; sentinel barriers",
   text="Generated multi-client scenarios are executed against a real in-process broker over TCP with an independent MQTT codec; every PUBLISH received by every subscriber (copies, QoS, RETAIN, subscription ids, properties, order per publisher, DUP, packet id) and every ack to every publisher is compared with a reference model of MQTT matching and of the two delivery modes. Holds on the executions produced (hundreds to thousands of scenarios, concurrent publishers, injected hook delays), not for all schedules.",
   note="trusted: mqttx codec, refmodel.Match, FIFO of TCP/queue for the sentinel barrier; drop conditions excluded by configuration; publishers also use topic aliases and burst-and-close connections", ref="§5 C01"),
 "C07": dict(cat="exploration", technique="reference-model monitor over store histories (exhaustive small scope + random) and wire-level replay monitor",
   text="(a) retained.Store compared with a map model after every operation of exhaustively enumerated short histories and random long ones (all topic/filter lookups, Iterate, copy semantics); (b) wire scenarios check what a SUBSCRIBE replays (Retain Handling, RAP, QoS downgrade, shared, v3/v5, re-subscription).",
   note="trusted: refmodel.Match, mqttx; sentinel barrier for completeness of replay; plus races of retained PUBLISH vs SUBSCRIBE over a slow retained store (WithRetainedStore)", ref="§5 C07"),
 "C10": dict(cat="exploration", technique="validating reference model over seeded API histories with conservation ledger and final drain",
   text="Seeded histories of Add/Read/ReadInflight/Remove/Replace/Init/Close on the memory and redis queue are validated step by step: bound, FIFO, id assignment, expired/oversize never returned, replay after Init, documented drop priority (any member of the demanded class accepted), counters = true contents, every message in exactly one ledger state, blocked Read released by Close/Add.",
   note="trusted: the model (written from the statement and the interface comment), fakeredis; expiry via +-1h offsets, no wall-clock verdicts", ref="§5 C10"),
 "C03": dict(cat="exploration", technique="wire-level trace monitor on a scripted subscriber (window, identifier, resume, at-least-once invariants) under generated ack/cut scripts",
   text="A scripted persistent subscriber follows generated acknowledgement and connection-cut scripts against a real broker (memory and redis queues); online monitors on its wire check the in-flight window bound, identifier uniqueness, retransmission order/DUP/ids after every resume, at-least-once and absence of retransmission after confirmed acks; thorough adds a 70000-message identifier wrap-around.",
   note="trusted: mqttx; the subscriber's outstanding count is a sound lower bound; quiet periods only widen observation; drop paths excluded by configuration", ref="§5 C03"),
 "C04": dict(cat="exploration", technique="wire-level history monitor: generated PUBLISH/PUBREL/reconnect histories vs exactly-once model, ack order behind PINGREQ barriers",
   text="Generated and (thorough) exhaustively enumerated packet histories of a publisher are replayed against a real broker; an independent subscriber counts deliveries per unique payload and the ack stream is compared in order with the model; includes cuts between PUBLISH and PUBREC and a concurrent publisher on another session reusing the same ids.",
   note="trusted: mqttx; sequential handling of one connection's packets (PINGREQ barrier); fakeredis for the redis unack store", ref="§5 C04"),
 "C11": dict(cat="exploration", technique="reference-model monitor over store histories + wire-level conservation monitor (copies per group sum to 1) attributed by subscription identifiers",
   text="(a) every shared lookup of the subscription store compared with a reference table after each operation of seeded join/leave histories (mem and redis wrapper); (b) wire scenarios with joins, UNSUBSCRIBE, clean disconnect, abrupt close, take-over, clean-start reconnect, TerminateSession and offline persistent members; each group join carries a unique subscription identifier so every received copy is attributed to its group, and per message and matching group exactly one current member must receive it at min(published, granted) QoS, independently of non-shared subscriptions.",
   note="trusted: mqttx, refmodel.Match; copies destined to a member whose session ended while it was offline are unobservable and excluded; expiry-based leaving is covered only in thorough", ref="§5 C11"),
 "C13": dict(cat="exploration", technique="wire-level limit monitors (packet size, alias table, quota) over all validator-accepted configurations",
   text="For every validator-accepted combination of the four limits (thorough: all 225) scripted v5 clients exercise the advertised Topic Alias Maximum, Receive Maximum and Maximum Packet Size exactly at and just beyond the limit (0x94/0x93/0x95 expected beyond, survival expected within), and a subscriber declaring its own maxima checks the wire size and alias use of every packet it receives, resolving aliases with the spec's table; recovered broker panics are read from OnClosed.",
   note="trusted: mqttx sizes; messages that fit only when aliased may be delivered or dropped; also: outbound limits of a resumed session (DESIGN §9.2)", ref="§5 C13"),
 "C18": dict(cat="exploration", technique="differential wire monitor: same MQTT byte stream under many WebSocket segmentations vs expected dialogue (cross-checked over TCP)",
   text="A reference client byte stream is cut into WebSocket binary messages in every fixed chunk size 1..2100, every single cut position of a 3 KB stream, random cuts around the reader's 1024-byte buffer, packed and empty messages; the broker's replies (frame types, CONNACK, SUBACK, PUBACK ids, checksums of echoed payloads, PINGRESP) must be those of the unsegmented stream; text frames must be rejected without effect on broker state.",
   note="trusted: gorilla/websocket client, mqttx", ref="§5 C18"),
 "C14": dict(cat="exploration", technique="scripted-verdict hooks + wire/service inspection; reflection-generated recording plugins checking wrapper nesting per hook kind",
   text="(a) hooks return scripted verdicts (reject with reason codes / downgrade / drop / rewrite / replace) and after each request the wire (CONNACK, SUBACK, acks, deliveries) and the services (sessions, subscriptions, retained store) must reflect exactly that decision; (b) three plugins wrap every field of server.HookWrapper (filled by reflection, so new kinds are demanded automatically); for all 6 plugin orders a scripted session triggers every hook kind and the recorded trace must nest with the first plugin outermost, once per event.",
   note="trusted: mqttx; hooks rewriting a topic also set IterationOptions.TopicName; v3 CONNACK with out-of-spec code 0x87 is counted, not judged", ref="§5 C14"),
 "C19": dict(cat="exploration", technique="differential credential oracle (independent hash computation) over a CONNECT matrix, account histories with restarts, and state-invariance monitor for unauthenticated traffic",
   text="Thousands of CONNECT attempts (all versions, flags, near-miss credentials, AuthMethod/AuthData, TCP and WebSocket) against the auth plugin under each hash algorithm are judged by a model of the account set whose stored hashes are computed independently; accounts are changed through the plugin's own handlers and the broker is restarted on the same file; scripts of unauthenticated traffic must leave sessions, subscriptions, retained messages and an authenticated observer untouched and must never be answered.",
   note="trusted: stdlib md5/sha256, x/crypto bcrypt, mqttx; CONNECT with an Authentication Method may be refused (only acceptance without valid credentials is a violation)", ref="§5 C19"),
 "C20": dict(cat="exploration", technique="conservation monitor: broker statistics vs the scripted clients' wire log at logically reached quiescent points, plus gauge poller",
   text="Seeded multi-client scenarios (all packet types incl. AUTH, QoS 0-2, exactly known drops of three kinds, reconnects, take-overs, terminations) are run against a real broker; at quiescence every per-client and global packet/byte counter, per-QoS message and drop counter, queued/in-flight gauge and connection/session counter is compared with ground truth derived from the clients' own packet logs and the scenario; globals are compared with the sum of the per-client values; gauges are sampled every 100 us for wrap below zero.",
   note="trusted: mqttx sizes; quiescence via sentinel+PINGREQ barriers; 'sent' counters of displaced connections compared with >=; transient gauge states shorter than the sampling period can be missed; includes sessions restored at start-up (redis) and directed session-gauge scenarios", ref="§5 C20"),
 "C08": dict(cat="exploration", technique="timed wire-level monitor (independent subscriber + hook timestamps) over the cross product of will settings, connection endings and re-attachments",
   text="For every combination of will settings, way of ending the connection, session expiry and re-attachment timing, an independent Retain-As-Published QoS2 subscriber, the retained store and the OnClosed timestamp decide whether, when (outside a 400 ms margin, within delay+5 s), how often and with which content the will was published.",
   note="real time; timing verdicts must recur; lateness is inconclusive when the harness' own timers were late (jitter probe); includes a store refusal while the session ends", ref="§5 C08"),
 "C12": dict(cat="exploration", technique="timed wire-level monitor with measured waiting intervals and margins",
   text="Messages with and without expiry from v5/v3/API publishers wait in the broker (subscriber online, offline, or slow) for times chosen well on either side of min(expiry, configured maximum); delivery vs drop+OnMsgDropped(expired) and the forwarded Message Expiry Interval are checked against the measured waiting interval.",
   note="real time, 400 ms margins, cases inside the margin are inconclusive, verdicts must recur", ref="§5 C12"),
 "C05": dict(cat="exploration", technique="timed wire-level session model + take-over storms under the Go race detector with injected delays at lock hand-over points",
   text="(a) lifecycle histories (expiry values, connection durations longer than the expiry, DISCONNECT with new expiry, abrupt close, TerminateSession, take-over) judged by a session model from measured times with margins: Session Present, CONNACK expiry, subscriptions and queued messages; (b) thousands of storms of simultaneous CONNECTs with one client id on new/offline/online sessions: exactly one socket stays attached, hook log never shows two attached connections, GetClient is the survivor, nothing reaches displaced sockets; plus the deterministic take-over of a stuck consumer.",
   note="built with -race and -tags verif (yield hooks); real time with 400 ms margins for (a); race reports from gmqtt code fail the check; includes broker restarts on redis and a refused queue clean-up at session end", ref="§5 C05"),
 "C09": dict(cat="fault_enumeration", technique="crash-point enumeration over the journal of an in-process redis stand-in; recovery checked by restarting a real broker on every prefix",
   text="A real broker on the redis back end executes generated client histories step by step against fakeredis, which journals every state-changing command; for every prefix of the journal (thorough) a fresh broker is started on the replayed state and must start, know every acknowledged session, have exactly the acknowledged subscriptions with their options, redeliver every publisher-acknowledged and subscriber-unacknowledged QoS>0 message and still recognise QoS2 ids awaiting PUBREL; operations in flight at the crash point may be either way.",
   note="trusted: fakeredis (passes gmqtt's redis store suites), mqttx; single redis commands are atomic; redis-internal durability is out of scope", ref="§5 C09"),
 "C15": dict(cat="exploration", technique="Go race detector + panic/deadlock/termination monitors over chaos workloads with schedule perturbation; porcupine linearizability of recorded store histories",
   text="Chaos runs (20-60 clients incl. shared client ids, slow consumers, half-open and refused connections, 4 API goroutines, wills, expiries, Stop under traffic, GOMAXPROCS 1/2/4/16, seeded delays at lock hand-over points) under the race detector; monitors: race log filtered to gmqtt frames, recovered/fatal panics, 30 s request watchdog with goroutine dumps, Stop result and duration, listeners closed, sockets at EOF, plugin Load/Unload/OnStop exactly once, no broker goroutine left after 10 s; recorded concurrent histories of the retained and subscription stores checked with porcupine.",
   note="directed scenarios (delayed wills at Stop, restored sessions, a resumed consumer that never reads with expired in-flight entries and a full queue) beside the chaos runs; the race detector only sees schedules produced; goroutines attributed by function name with one broker per process at a time; recovered panics of connection goroutines are seen through a verif hook; chaos runs on redis with refused commands are judged for races, crashes and termination only (DESIGN §9.6)", ref="§5 C15"),
 "C06": dict(cat="exploration", technique="differential codec monitor (independent mqttx codec), structure-aware + mutation + random + length-bomb generators, framing/allocation/hang monitors, exhaustive string predicates",
   text="Millions of generated inputs (well-formed packets of all 15 types and 3 versions with every property, byte-level mutations, raw bytes, tiny inputs declaring huge lengths) are fed to gmqtt's decoder under recover, a 10 s hang watchdog, a counting reader with a trailer packet (framing) and a TotalAlloc monitor (allocation bound); accepted packets are re-encoded and re-decoded; well-formed values are cross-encoded/decoded with an independent codec; reported sizes are compared with encoded lengths; validity predicates are compared exhaustively on all strings up to length 6 over a hostile alphabet.",
   note="trusted: mqttx (written from the OASIS specs, own test-suite); leniency outside the explicit malformed classes is counted, not judged; also: packets kept while the Reader reads on, encodings after a broken write", ref="§5 C06"),
 "C16": dict(cat="exploration", technique="ordering / exactly-once monitor over an applied-event trace (hook after duplicate suppression) under scripted stream faults from a TCP fault proxy",
   text="Pairs of real nodes federated through serf and gRPC on loopback; the emitter's stream crosses a proxy that cuts all connections, cuts after n more bytes in either direction (thorough: every offset 1..600 of a re-established stream), black-holes traffic and cuts again during the resend; the receiver's applied-event trace must contain every emitted subscribe/unsubscribe/message event exactly once in emission order within 15 s after the last fault, views must converge, forwarded messages reach the subscriber once; node replacement exercises the full resynchronisation.",
   note="needs the verif hooks of plugin/federation; bounded progress 15 s; serf membership trusted; views are compared with the subscription store (ground truth); also clusters of three nodes with drifted per-peer streams and last-UNSUBSCRIBE-vs-new-SUBSCRIBE rounds with a hook held at the yield sites of the federation's subscription hooks; includes lost acknowledgements before a resume and resynchronisation under churn", ref="§5 C16"),
 "C17": dict(cat="exploration", technique="routing monitor over applied-event traces of three federated nodes + wire-level conservation of copies (subscription identifiers)",
   text="Generated subscription distributions over three real federated nodes (plain, wildcard, $-topics, share groups spanning nodes) and unique publishes from any node: forwarded once to exactly the nodes with a matching non-shared subscription, never to nodes without a match, never back or onward; every matching non-shared subscriber gets one copy at min QoS; exactly one member per share group in the federation; retained messages reach and update (or clear) every node's retained store.",
   note="views converged before publishing (logical barrier, against the subscription store); per-peer streams FIFO; known findings: share-group handling in sendMessage (signatures carry what each mechanism needs); includes will messages, a store refusal at session end and replaced sessions", ref="§5 C17"),
}

def main():
    checks = []
    for pid in ALL:
        if pid not in CHECKS: continue
        c = CHECKS[pid]
        checks.append({
            "property_id": pid,
            "quick_cmd": "./check %s quick" % pid,
            "thorough_cmd": "./check %s thorough" % pid,
            "evidence_file": "evidence/%s.json" % pid,
            "replay_cmd_template": "./check %s --replay {path}" % pid,
            "engine": "harness",
            "level_claimed": {"category": c["cat"], "text": c["text"], "design_ref": "DESIGN.md " + c["ref"]},
            "level_note": c["note"],
            "technique": c["technique"],
        })
    hooks_commits = []
    hp = os.path.join(ROOT, "tools", "hook_commits.txt")
    if os.path.exists(hp):
        hooks_commits = [l.strip() for l in open(hp) if l.strip()]
    m = {
        "version": 1,
        "setup_cmd": "./setup.sh",
        "hooks": {
            "guard": "verif",
            "enable": "go build -tags verif (harness module replaces github.com/DrmagicE/gmqtt => /repo, so every check rebuilds /repo's working tree)",
            "baseline_off_cmd": "cd /repo && GOFLAGS=-mod=mod GOPROXY=off go test -json -vet=off -count=1 -timeout 25m ./...",
            "source_commits": hooks_commits,
            "add_only": True,
        },
        "engines": [{"name": "harness", "path": "harness/", "serves_properties": sorted(CHECKS.keys()),
                     "kind_free_text": "Go runtime-monitoring harness: in-process brokers driven over real sockets by an independent MQTT codec, reference-model oracles, recording hooks/persistence, fake redis with journal, fault proxy, Go race detector"}],
        "checks": checks,
        "not_applicable": [{"property_id": p, "reason": "check not built yet (work in progress, see DESIGN.md §5)"} for p in ALL if p not in CHECKS],
        "notes": "Technique family: runtime monitoring and sanitizers. ./check <ID> <tier> rebuilds the harness against /repo's working tree, runs the workload in a child process and maps verdicts to exit codes (0 held, 1 VIOLATION, 2 broken/inconclusive). Known findings: KNOWN_FINDINGS.",
    }
    json.dump(m, open(os.path.join(ROOT, "MANIFEST.json"), "w"), indent=1)
    print("MANIFEST.json written:", len(checks), "checks")
main()
