#!/bin/bash
# tools/confirm_round.sh <alias1> <alias2> <props...> : stage 1+2 of tools/seeded.py (scratch worktree /tmp/mut-<P>: patch applies,
# builds, baseline suite unchanged, demo fails with / passes without) for the sub-agent's m1 and m2, stored as <P>-<alias1>/<alias2>.
a1=$1; a2=$2; shift 2
cd /verif
for p in "$@"; do
  tools/seeded.py $p m1 --as $a1 --confirm-only > /tmp/confirm-$p-m1.log 2>&1; echo "$p m1 -> $a1: $(tail -1 /tmp/confirm-$p-m1.log)"
  tools/seeded.py $p m2 --as $a2 --confirm-only > /tmp/confirm-$p-m2.log 2>&1; echo "$p m2 -> $a2: $(tail -1 /tmp/confirm-$p-m2.log)"
done
